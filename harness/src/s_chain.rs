//! stream `chain`: signed block chains built through the API, structured mutations of the wire
//! message, and what `Biscuit::from` / `UnverifiedBiscuit::verify` make of them (C01, C02, C07, C08, C15)
use crate::common::*;
use biscuit_auth::builder::{Algorithm, BiscuitBuilder, BlockBuilder, Fact, Term};
use biscuit_auth::datalog::SymbolTable;
use biscuit_auth::format::schema;
use biscuit_auth::{Biscuit, KeyPair, PrivateKey, PublicKey, UnverifiedBiscuit};
use prost::Message;
use rand::rngs::StdRng;
use rand::Rng;
use serde_json::{json, Value};
use std::collections::BTreeMap;

pub fn pk_json(k: &schema::PublicKey) -> Value {
    json!({"alg": k.algorithm, "bytes": hex::encode(&k.key)})
}

pub fn pubkey_json(k: &PublicKey) -> Value {
    pk_json(&k.to_proto())
}

fn sblock_json(b: &schema::SignedBlock) -> Value {
    json!({
        "data": hex::encode(&b.block),
        "key": pk_json(&b.next_key),
        "sig": hex::encode(&b.signature),
        "ext": b.external_signature.as_ref().map(|e| json!({"key": pk_json(&e.public_key), "sig": hex::encode(&e.signature)})),
        "version": b.version,
    })
}

pub fn wire_json(b: &schema::Biscuit) -> Value {
    json!({
        "root_key_id": b.root_key_id,
        "authority": sblock_json(&b.authority),
        "blocks": b.blocks.iter().map(sblock_json).collect::<Vec<_>>(),
        "proof": match &b.proof.content {
            Some(schema::proof::Content::NextSecret(s)) => json!({"secret": hex::encode(s)}),
            Some(schema::proof::Content::FinalSignature(s)) => json!({"seal": hex::encode(s)}),
            None => Value::Null,
        },
    })
}

fn pk_from_json(v: &Value) -> schema::PublicKey {
    schema::PublicKey { algorithm: v["alg"].as_i64().unwrap() as i32, key: hex::decode(v["bytes"].as_str().unwrap()).unwrap() }
}

fn sblock_from_json(v: &Value) -> schema::SignedBlock {
    schema::SignedBlock {
        block: hex::decode(v["data"].as_str().unwrap()).unwrap(),
        next_key: pk_from_json(&v["key"]),
        signature: hex::decode(v["sig"].as_str().unwrap()).unwrap(),
        external_signature: if v["ext"].is_null() {
            None
        } else {
            Some(schema::ExternalSignature {
                signature: hex::decode(v["ext"]["sig"].as_str().unwrap()).unwrap(),
                public_key: pk_from_json(&v["ext"]["key"]),
            })
        },
        version: v["version"].as_u64().map(|x| x as u32),
    }
}

pub fn wire_from_json(v: &Value) -> schema::Biscuit {
    schema::Biscuit {
        root_key_id: v["root_key_id"].as_u64().map(|x| x as u32),
        authority: sblock_from_json(&v["authority"]),
        blocks: v["blocks"].as_array().unwrap().iter().map(sblock_from_json).collect(),
        proof: schema::Proof {
            content: if let Some(s) = v["proof"].get("secret") {
                Some(schema::proof::Content::NextSecret(hex::decode(s.as_str().unwrap()).unwrap()))
            } else if let Some(s) = v["proof"].get("seal") {
                Some(schema::proof::Content::FinalSignature(hex::decode(s.as_str().unwrap()).unwrap()))
            } else {
                None
            },
        },
    }
}

pub fn decode(bytes: &[u8]) -> Option<schema::Biscuit> {
    schema::Biscuit::decode(bytes).ok()
}

pub fn encode(b: &schema::Biscuit) -> Vec<u8> {
    let mut v = Vec::new();
    b.encode(&mut v).unwrap();
    v
}

/// what the library makes of a serialized token under a root key
pub fn present(bytes: &[u8], root: &PublicKey) -> Value {
    let bytes = bytes.to_vec();
    let root = *root;
    let r = std::panic::catch_unwind(move || {
        let a = Biscuit::from(&bytes, root);
        let b = UnverifiedBiscuit::from(&bytes).and_then(|u| u.verify(root).map_err(biscuit_auth::error::Token::Format));
        let c = Biscuit::from_base64(base64::encode_config(&bytes, base64::URL_SAFE), root);
        // the lenient parser only relaxes parsing: verify() afterwards is the strict check
        let d = UnverifiedBiscuit::unsafe_deprecated_deserialize(&bytes).and_then(|u| u.verify(root).map_err(biscuit_auth::error::Token::Format));
        let mut o = json!({"accept": a.is_ok(), "accept_unverified_then_verify": b.is_ok(), "accept_base64": c.is_ok(),
            "accept_deprecated_parse_then_verify": d.is_ok()});
        match &a {
            Ok(t) => {
                o["ids"] = json!(t.revocation_identifiers().iter().map(hex::encode).collect::<Vec<_>>());
                o["ext_keys"] = json!(t.external_public_keys().iter().map(|k| k.as_ref().map(pubkey_json)).collect::<Vec<_>>());
                o["block_count"] = json!(t.block_count());
                o["root_key_id"] = json!(t.root_key_id());
                o["sources"] = json!((0..t.block_count()).map(|i| t.print_block_source(i).unwrap_or_else(|e| format!("ERR: {:?}", e))).collect::<Vec<_>>());
                o["context"] = json!(t.context());
                o["reserialized_identical"] = json!(t.to_vec().ok().as_deref() == Some(&bytes[..]));
                if let Ok(u) = &b {
                    o["ids_unverified_path"] = json!(u.revocation_identifiers().iter().map(hex::encode).collect::<Vec<_>>());
                }
            }
            Err(e) => {
                o["error"] = json!(format!("{:?}", e).chars().take(120).collect::<String>());
            }
        }
        o
    });
    match r {
        Ok(v) => v,
        Err(e) => json!({"panic": panic_msg(e)}),
    }
}

fn alg_of(i: u32) -> Algorithm {
    if i == 0 { Algorithm::Ed25519 } else { Algorithm::Secp256r1 }
}

fn block_builder(rng: &mut StdRng, v33: bool) -> BlockBuilder {
    let mut bb = BlockBuilder::new();
    for _ in 0..rng.gen_range(0..3) {
        let t = if v33 { Term::Null } else { Term::Integer(rng.gen_range(0..100)) };
        bb = bb.fact(Fact::new(format!("f{}", rng.gen_range(0..4)), vec![t, Term::Str(format!("s{}", rng.gen_range(0..3)))])).unwrap();
    }
    if rng.gen_range(0..4) == 0 {
        bb = bb.context(format!("ctx{}", rng.gen_range(0..9)));
    }
    // rules, checks, scopes, collections: what the block message carries besides facts
    if rng.gen_range(0..2) == 0 {
        let plain = ["r($x) <- f0($x, $y), $x > 1;", "check if f1($a, $b) trusting previous;", "f2({1, 2}, \"s0\");", "check all f0($x, $y), $x >= 0;",
            "check if f0($x, $y), $y.starts_with(\"s\") or f1(1, \"s1\") trusting authority;"];
        let newer = ["f3(null, [1, {\"a\": 2}]);", "check if [1, 2].any($p -> $p > 1);", "reject if f9(1);", "check if {\"k\": 1}.get(\"k\") === 1;"];
        let snippet: &str = if v33 && rng.gen() { *pick(rng, &newer) } else { *pick(rng, &plain) };
        bb = bb.code(snippet).unwrap();
    }
    bb
}

pub struct History {
    pub root: KeyPair,
    pub stages: Vec<Biscuit>,
    /// secrets an honest holder of some stage knows: (algorithm, secret bytes, public key)
    pub secrets: Vec<(i32, Vec<u8>, PublicKey)>,
    pub ops: Vec<String>,
}

/// builds a token through the public API: algorithms for every key, first/third party blocks,
/// datalog 3.3 content (forces signature version 1), optional root key id and seal
pub fn gen_history(rng: &mut StdRng, max_blocks: usize, may_seal: bool) -> History {
    let root = KeyPair::new_with_rng(alg_of(rng.gen_range(0..3) / 2), rng);
    let mut ops = vec![];
    let next = KeyPair::new_with_rng(alg_of(rng.gen_range(0..4) / 3), rng);
    let mut secrets = vec![(next.public().to_proto().algorithm, next.private().to_bytes().to_vec(), next.public())];
    let v33 = rng.gen_range(0..4) == 0;
    let mut b = BiscuitBuilder::new().merge(block_builder(rng, v33));
    if rng.gen_range(0..3) == 0 {
        b = b.root_key_id(*pick(rng, &[0u32, 0, 1, 4, u32::MAX]));
    }
    let mut token = b.build_with_key_pair(&root, SymbolTable::new(), &next).unwrap();
    ops.push(format!("build(root={:?},next={:?},v33={})", root.algorithm(), next.algorithm(), v33));
    let mut stages = vec![token.clone()];
    let n = rng.gen_range(0..=max_blocks);
    for _ in 0..n {
        let next = KeyPair::new_with_rng(alg_of(rng.gen_range(0..4) / 3), rng);
        secrets.push((next.public().to_proto().algorithm, next.private().to_bytes().to_vec(), next.public()));
        let v33 = rng.gen_range(0..5) == 0;
        if rng.gen_range(0..3) == 0 {
            let ext = KeyPair::new_with_rng(alg_of(rng.gen_range(0..2)), rng);
            let req = token.third_party_request().unwrap();
            let blk = req.create_block(&ext.private(), block_builder(rng, v33)).unwrap();
            token = token.append_third_party_with_keypair(ext.public(), blk, KeyPair::from(&next.private())).unwrap();
            ops.push(format!("append_third_party(ext={:?},next={:?})", ext.algorithm(), next.algorithm()));
        } else {
            token = token.append_with_keypair(&next, block_builder(rng, v33)).unwrap();
            ops.push(format!("append(next={:?},v33={})", next.algorithm(), v33));
        }
        stages.push(token.clone());
    }
    if may_seal && rng.gen_range(0..3) == 0 {
        token = token.seal().unwrap();
        ops.push("seal".to_string());
        stages.push(token);
    }
    History { root, stages, secrets, ops }
}

fn flip(v: &mut Vec<u8>, rng: &mut StdRng) {
    if v.is_empty() {
        v.push(1);
    } else {
        let i = rng.gen_range(0..v.len());
        v[i] ^= 1 << rng.gen_range(0..8);
    }
}

fn block_mut<'a>(w: &'a mut schema::Biscuit, i: usize) -> &'a mut schema::SignedBlock {
    if i == 0 { &mut w.authority } else { &mut w.blocks[i - 1] }
}

/// secp256r1: the signature (r, n - s), DER re-encoded; None if the signature is not DER/ECDSA
pub fn ecdsa_flip_s(sig: &[u8]) -> Option<Vec<u8>> {
    use p256::ecdsa::Signature;
    let s = Signature::from_der(sig).ok()?;
    let (r, sv) = s.split_scalars();
    let neg = -*sv;
    let s2 = Signature::from_scalars(*r, neg).ok()?;
    Some(s2.to_der().as_bytes().to_vec())
}

/// secp256r1: the same scalars in the fixed-size encoding r || s (64 bytes) instead of DER
pub fn ecdsa_raw(sig: &[u8]) -> Option<Vec<u8>> {
    let s = p256::ecdsa::Signature::from_der(sig).ok()?;
    Some(s.to_bytes().to_vec())
}

/// every single structured mutation of `w` (description, mutated message)
pub fn mutations(w: &schema::Biscuit, other: &schema::Biscuit, earlier: Option<&schema::Biscuit>, rng: &mut StdRng) -> Vec<(String, schema::Biscuit)> {
    let mut out: Vec<(String, schema::Biscuit)> = vec![];
    let n = 1 + w.blocks.len();
    let foreign = KeyPair::new_with_rng(Algorithm::Ed25519, rng);
    for i in 0..n {
        let mut m = w.clone();
        flip(&mut block_mut(&mut m, i).block, rng);
        out.push((format!("block{i}.data flip"), m));
        let mut m = w.clone();
        flip(&mut block_mut(&mut m, i).signature, rng);
        out.push((format!("block{i}.signature flip"), m));
        let mut m = w.clone();
        block_mut(&mut m, i).signature.push(0);
        out.push((format!("block{i}.signature extended"), m));
        let mut m = w.clone();
        block_mut(&mut m, i).signature.pop();
        out.push((format!("block{i}.signature truncated"), m));
        if let Some(s2) = ecdsa_flip_s(&block_mut(&mut w.clone(), i).signature) {
            let signer_is_p256 = if i == 0 { true } else { block_mut(&mut w.clone(), i - 1).next_key.algorithm == 1 };
            if signer_is_p256 {
                let mut m = w.clone();
                block_mut(&mut m, i).signature = s2;
                out.push((format!("block{i}.signature ecdsa (r, n-s)"), m));
                if let Some(s3) = ecdsa_raw(&block_mut(&mut w.clone(), i).signature) {
                    let mut m = w.clone();
                    block_mut(&mut m, i).signature = s3;
                    out.push((format!("block{i}.signature re-encoded as raw r||s"), m));
                }
            }
        }
        let mut m = w.clone();
        flip(&mut block_mut(&mut m, i).next_key.key, rng);
        out.push((format!("block{i}.next_key flip"), m));
        let mut m = w.clone();
        block_mut(&mut m, i).next_key = foreign.public().to_proto();
        out.push((format!("block{i}.next_key replaced"), m));
        let mut m = w.clone();
        block_mut(&mut m, i).next_key.algorithm ^= 1;
        out.push((format!("block{i}.next_key algorithm tag"), m));
        // a number that is no algorithm at all (must be refused, not read as the default algorithm)
        let mut m = w.clone();
        block_mut(&mut m, i).next_key.algorithm = *pick(rng, &[2i32, 7, -1, i32::MAX]);
        out.push((format!("block{i}.next_key algorithm number unknown"), m));
        for v in [None, Some(0u32), Some(1), Some(2)] {
            if block_mut(&mut w.clone(), i).version != v {
                let mut m = w.clone();
                block_mut(&mut m, i).version = v;
                out.push((format!("block{i}.version -> {:?}", v), m));
            }
        }
        if block_mut(&mut w.clone(), i).external_signature.is_some() {
            let mut m = w.clone();
            block_mut(&mut m, i).external_signature = None;
            out.push((format!("block{i}.external_signature stripped"), m));
            let mut m = w.clone();
            flip(&mut block_mut(&mut m, i).external_signature.as_mut().unwrap().signature, rng);
            out.push((format!("block{i}.external_signature.signature flip"), m));
            let mut m = w.clone();
            block_mut(&mut m, i).external_signature.as_mut().unwrap().public_key = foreign.public().to_proto();
            out.push((format!("block{i}.external_signature.public_key replaced"), m));
            let mut m = w.clone();
            block_mut(&mut m, i).external_signature.as_mut().unwrap().public_key.algorithm = *pick(rng, &[2i32, 7, -1]);
            out.push((format!("block{i}.external_signature.public_key algorithm number unknown"), m));
        } else if let Some(src) = w.blocks.iter().chain(other.blocks.iter()).find(|b| b.external_signature.is_some()) {
            let mut m = w.clone();
            block_mut(&mut m, i).external_signature = src.external_signature.clone();
            out.push((format!("block{i}.external_signature grafted"), m));
        }
    }
    // order, count, splicing
    if w.blocks.len() >= 2 {
        let mut m = w.clone();
        m.blocks.swap(0, 1);
        out.push(("blocks 1 and 2 swapped".into(), m));
    }
    if !w.blocks.is_empty() {
        let mut m = w.clone();
        m.blocks.pop();
        out.push(("last block dropped, proof kept".into(), m));
        let mut m = w.clone();
        m.blocks.remove(0);
        out.push(("block 1 dropped".into(), m));
        let mut m = w.clone();
        let d = m.blocks[0].clone();
        m.blocks.insert(0, d);
        out.push(("block 1 duplicated".into(), m));
        if let Some(e) = earlier {
            // drop the last block and take the proof of the earlier stage: that *is* the earlier token
            let mut m = w.clone();
            m.blocks.pop();
            m.proof = e.proof.clone();
            out.push(("last block dropped, proof of the earlier stage".into(), m));
        }
        let mut m = w.clone();
        std::mem::swap(&mut m.authority, &mut m.blocks[0]);
        out.push(("authority and block 1 exchanged".into(), m));
    }
    if !other.blocks.is_empty() {
        let mut m = w.clone();
        m.blocks.push(other.blocks[0].clone());
        out.push(("block of another token appended".into(), m));
        let mut m = w.clone();
        m.blocks.push(other.blocks[0].clone());
        m.proof = other.proof.clone();
        out.push(("block and proof of another token appended".into(), m));
    }
    let mut m = w.clone();
    m.authority = other.authority.clone();
    out.push(("authority of another token".into(), m));
    let mut m = w.clone();
    m.proof = other.proof.clone();
    out.push(("proof of another token".into(), m));
    // proof
    match &w.proof.content {
        Some(schema::proof::Content::NextSecret(s)) => {
            let mut m = w.clone();
            let mut s2 = s.clone();
            flip(&mut s2, rng);
            m.proof.content = Some(schema::proof::Content::NextSecret(s2));
            out.push(("proof secret flip".into(), m));
            // the secret followed by more bytes (the last public key: the 64-byte key pair encoding; or anything)
            let last_key = w.blocks.last().unwrap_or(&w.authority).next_key.key.clone();
            for (what, extra) in [("the last public key", last_key), ("32 arbitrary bytes", vec![7u8; 32]), ("one byte", vec![0u8])] {
                let mut m = w.clone();
                let mut s2 = s.clone();
                s2.extend(extra);
                m.proof.content = Some(schema::proof::Content::NextSecret(s2));
                out.push((format!("proof secret followed by {what}"), m));
            }
            let mut m = w.clone();
            m.proof.content = Some(schema::proof::Content::FinalSignature(s.clone()));
            out.push(("proof secret presented as seal".into(), m));
            let mut m = w.clone();
            m.proof.content = Some(schema::proof::Content::FinalSignature(w.blocks.last().unwrap_or(&w.authority).signature.clone()));
            out.push(("last signature presented as seal".into(), m));
        }
        Some(schema::proof::Content::FinalSignature(s)) => {
            let mut m = w.clone();
            let mut s2 = s.clone();
            flip(&mut s2, rng);
            m.proof.content = Some(schema::proof::Content::FinalSignature(s2));
            out.push(("seal flip".into(), m));
            let mut m = w.clone();
            let mut s2 = s.clone();
            s2.push(0);
            m.proof.content = Some(schema::proof::Content::FinalSignature(s2));
            out.push(("seal extended".into(), m));
            if w.blocks.last().unwrap_or(&w.authority).next_key.algorithm == 1 {
                if let Some(s2) = ecdsa_flip_s(s) {
                    let mut m = w.clone();
                    m.proof.content = Some(schema::proof::Content::FinalSignature(s2));
                    out.push(("seal ecdsa (r, n-s)".into(), m));
                }
                if let Some(s3) = ecdsa_raw(s) {
                    let mut m = w.clone();
                    m.proof.content = Some(schema::proof::Content::FinalSignature(s3));
                    out.push(("seal re-encoded as raw r||s".into(), m));
                }
            }
            let mut m = w.clone();
            m.proof.content = Some(schema::proof::Content::NextSecret(foreign.private().to_bytes().to_vec()));
            out.push(("seal replaced by a foreign secret".into(), m));
        }
        None => {}
    }
    let mut m = w.clone();
    m.proof.content = None;
    out.push(("proof removed".into(), m));
    // the unauthenticated hint
    let mut m = w.clone();
    m.root_key_id = match w.root_key_id { Some(k) => Some(k.wrapping_add(1)), None => Some(3) };
    out.push(("root_key_id changed".into(), m));
    let mut m = w.clone();
    m.root_key_id = None;
    if w.root_key_id.is_some() {
        out.push(("root_key_id removed".into(), m));
    }
    out
}

fn secrets_json(hs: &[&History], extra: &[&schema::Biscuit]) -> Value {
    let mut v: Vec<Value> = vec![];
    for h in hs {
        for (alg, sk, pk) in &h.secrets {
            v.push(json!({"alg": alg, "sk": hex::encode(sk), "pk": pubkey_json(pk)}));
        }
    }
    // secrets appearing in a (mutated) proof: their public part under the algorithm the verifier will use
    for w in extra {
        if let Some(schema::proof::Content::NextSecret(s)) = &w.proof.content {
            let alg = w.blocks.last().unwrap_or(&w.authority).next_key.algorithm;
            let a = if alg == 0 { Algorithm::Ed25519 } else { Algorithm::Secp256r1 };
            // derived with ed25519-dalek / p256 directly, not through the library under test: a secret has the length the
            // algorithm fixes, or it is the secret of no key
            let _ = a;
            let pk: Option<Vec<u8>> = if alg == 0 {
                <[u8; 32]>::try_from(&s[..]).ok().map(|b| ed25519_dalek::SigningKey::from_bytes(&b).verifying_key().to_bytes().to_vec())
            } else if alg == 1 {
                use p256::elliptic_curve::sec1::ToEncodedPoint;
                if s.len() == 32 { p256::SecretKey::from_slice(s).ok().map(|k| k.public_key().to_encoded_point(true).as_bytes().to_vec()) } else { None }
            } else {
                None
            };
            if let Some(pk) = pk {
                v.push(json!({"alg": alg, "sk": hex::encode(s), "pk": {"alg": alg, "bytes": hex::encode(pk)}}));
            }
        }
    }
    Value::Array(v)
}

/// canonical encodings of ed25519 points of order 1, 2, 4, 4, 8, 8
const SMALL_ORDER: [&str; 6] = [
    "0100000000000000000000000000000000000000000000000000000000000000",
    "ecffffffffffffffffffffffffffffffffffffffffffffffffffffffffffff7f",
    "0000000000000000000000000000000000000000000000000000000000000000",
    "0000000000000000000000000000000000000000000000000000000000000080",
    "26e8958fc2b227b045c3f489f2ef98f0d5dfac05d3c63339b13802886d53fc05",
    "c7176a703d4dd84fba3c0b760d10670f2a2053fa2c39ccc64ec7fd7792ac037a",
];

pub fn run(opts: &Opts) {
    let mut sink = Sink::new(opts, "chain");
    let mut stats: BTreeMap<String, u64> = BTreeMap::new();
    if let Some(path) = &opts.replay {
        for case in read_cases(path) {
            if case["op"] == "sealops" {
                // re-created from a fresh history: the operations need live keys
                let mut rng = case_rng(opts.seed, 2, 0);
                let h = gen_history(&mut rng, 2, false);
                let t = h.stages.last().unwrap().clone();
                let (c2, out) = seal_ops_case(&mut rng, &h, &t);
                sink.put(&c2, &out);
                continue;
            }
            let root = PublicKey::from_proto(&pk_from_json(&case["root"])).ok();
            let bytes = encode(&wire_from_json(&case["subject"]));
            let out = match root {
                Some(r) => present(&bytes, &r),
                None => json!({"accept": false, "error": "root key does not parse"}),
            };
            sink.put(&case, &out);
        }
        sink.finish();
        return;
    }
    let nh = if opts.n > 0 { opts.n } else if opts.thorough { 1200 } else { 40 };
    for i in 0..nh {
        let mut rng = case_rng(opts.seed, 1, i as u64);
        let h = gen_history(&mut rng, 3, true);
        let h2 = gen_history(&mut rng, 2, false);
        let honest: Vec<schema::Biscuit> = h.stages.iter().chain(h2.stages.iter()).map(|t| decode(&t.to_vec().unwrap()).unwrap()).collect();
        let honest_roots: Vec<Value> = h.stages.iter().map(|_| pubkey_json(&h.root.public())).chain(h2.stages.iter().map(|_| pubkey_json(&h2.root.public()))).collect();
        let honest_j: Vec<Value> = honest.iter().zip(honest_roots.iter()).map(|(w, r)| json!({"root": r, "token": wire_json(w)})).collect();
        let other = decode(&h2.stages.last().unwrap().to_vec().unwrap()).unwrap();
        // every stage as it is: must verify, round-trip byte-exactly, keep its identifiers
        for (k, t) in h.stages.iter().enumerate() {
            let bytes = t.to_vec().unwrap();
            let w = decode(&bytes).unwrap();
            let mut out = present(&bytes, &h.root.public());
            out["ids_in_memory"] = json!(t.revocation_identifiers().iter().map(hex::encode).collect::<Vec<_>>());
            out["root_key_id_in_memory"] = json!(t.root_key_id());
            out["block_count_in_memory"] = json!(t.block_count());
            out["ext_keys_in_memory"] = json!(t.external_public_keys().iter().map(|k| k.as_ref().map(pubkey_json)).collect::<Vec<_>>());
            out["wire_bytes"] = json!(hex::encode(&bytes));
            let dvs: Vec<Option<u32>> = (0..t.block_count()).map(|i| t.block_version(i).ok()).collect();
            let case = json!({"op": "chain", "mutation": "none", "stage": k, "history": h.ops, "root": pubkey_json(&h.root.public()),
                "root_alg": h.root.public().to_proto().algorithm, "datalog_versions": dvs, "raw": hex::encode(&bytes),
                "honest": honest_j, "subject": wire_json(&w), "secrets": secrets_json(&[&h, &h2], &[&w])});
            *stats.entry(format!("honest/accept:{}", out["accept"])).or_insert(0) += 1;
            sink.put(&case, &out);
            // presented under another root key
            let out = present(&bytes, &h2.root.public());
            let case = json!({"op": "chain", "mutation": "other root key", "stage": k, "history": h.ops, "root": pubkey_json(&h2.root.public()),
                "honest": honest_j, "subject": wire_json(&w), "secrets": secrets_json(&[&h, &h2], &[&w])});
            *stats.entry(format!("other-root/accept:{}", out["accept"])).or_insert(0) += 1;
            sink.put(&case, &out);
            // presented under a root key of small order, with the one signature that needs no secret under such a
            // key (R = a small-order point, s = 0): strict verification refuses the key itself
            for (n, so) in SMALL_ORDER.iter().enumerate() {
                let kb = hex::decode(so).unwrap();
                let root = match PublicKey::from_bytes(&kb, Algorithm::Ed25519) {
                    Ok(r) => r,
                    Err(_) => continue,
                };
                for (m, rb) in [SMALL_ORDER[0], so].iter().enumerate() {
                    let mut w2 = w.clone();
                    let mut sig = hex::decode(rb).unwrap();
                    sig.extend_from_slice(&[0u8; 32]);
                    w2.authority.signature = sig;
                    let bytes2 = encode(&w2);
                    let out = present(&bytes2, &root);
                    let case = json!({"op": "chain", "mutation": format!("small-order root key {n}, key-less authority signature {m}"), "stage": k, "history": h.ops,
                        "root": pubkey_json(&root), "honest": honest_j, "subject": wire_json(&w2), "secrets": secrets_json(&[&h, &h2], &[&w2])});
                    *stats.entry(format!("small-order-root/accept:{}", out["accept"])).or_insert(0) += 1;
                    sink.put(&case, &out);
                }
            }
        }
        // structured mutations of the final stage and of one intermediate stage
        let picks: Vec<usize> = if h.stages.len() > 2 { vec![h.stages.len() - 1, h.stages.len() - 2] } else { vec![h.stages.len() - 1] };
        for k in picks {
            let w = decode(&h.stages[k].to_vec().unwrap()).unwrap();
            let earlier = if k > 0 { Some(decode(&h.stages[k - 1].to_vec().unwrap()).unwrap()) } else { None };
            for (desc, m) in mutations(&w, &other, earlier.as_ref(), &mut rng) {
                let bytes = encode(&m);
                let out = present(&bytes, &h.root.public());
                let case = json!({"op": "chain", "mutation": desc, "stage": k, "history": h.ops, "root": pubkey_json(&h.root.public()),
                    "honest": honest_j, "subject": wire_json(&m), "secrets": secrets_json(&[&h, &h2], &[&m])});
                let class = desc.split(|c: char| c.is_ascii_digit()).next().unwrap_or("").to_string() + desc.split('.').nth(1).unwrap_or("");
                *stats.entry(format!("mut:{}/accept:{}", class.trim(), out["accept"])).or_insert(0) += 1;
                sink.put(&case, &out);
            }
        }
    }
    // honest secp256r1 tokens whose DER signature is shorter than usual (r or s with a leading zero byte:
    // about one signature in 128): searched for, since a random history seldom has one
    for i in 0..(if opts.thorough { 12 } else { 3 }) {
        let mut rng = case_rng(opts.seed, 4, i as u64);
        let root = KeyPair::new_with_rng(Algorithm::Secp256r1, &mut rng);
        let next = KeyPair::new_with_rng(alg_of(rng.gen_range(0..2)), &mut rng);
        for n in 0..4000i64 {
            let b = BiscuitBuilder::new().fact(Fact::new("n".to_string(), vec![Term::Integer(n), Term::Integer(i as i64)])).unwrap();
            let t = b.build_with_key_pair(&root, SymbolTable::new(), &next).unwrap();
            let bytes = t.to_vec().unwrap();
            let w = decode(&bytes).unwrap();
            if w.authority.signature.len() >= 70 {
                continue;
            }
            let out = present(&bytes, &root.public());
            let secrets = json!([{"alg": next.public().to_proto().algorithm, "sk": hex::encode(next.private().to_bytes()), "pk": pubkey_json(&next.public())}]);
            let case = json!({"op": "chain", "mutation": format!("honest token with a {}-byte DER signature", w.authority.signature.len()), "stage": 0,
                "history": ["build(root=Secp256r1)"], "root": pubkey_json(&root.public()),
                "honest": [json!({"root": pubkey_json(&root.public()), "token": wire_json(&w)})], "subject": wire_json(&w), "secrets": secrets});
            *stats.entry(format!("short-der/accept:{}", out["accept"])).or_insert(0) += 1;
            sink.put(&case, &out);
            break;
        }
    }
    // every operation on a sealed token, through both APIs, before and after a round trip
    for i in 0..nh {
        let mut rng = case_rng(opts.seed, 2, i as u64);
        let h = gen_history(&mut rng, 2, false);
        let t = h.stages.last().unwrap().clone();
        let (case, out) = seal_ops_case(&mut rng, &h, &t);
        for (k, v) in out["ops"].as_object().unwrap() {
            *stats.entry(format!("sealops/{}:{}", k.split('.').nth(1).unwrap_or(""), v.as_str().unwrap_or(""))).or_insert(0) += 1;
        }
        sink.put(&case, &out);
    }
    // third-party responses: right place, wrong key, other token, other position, altered (C07)
    for i in 0..nh {
        let mut rng = case_rng(opts.seed, 3, i as u64);
        let h = gen_history(&mut rng, 2, false);
        let h2 = gen_history(&mut rng, 1, false);
        for (case, out) in third_party_cases(&mut rng, &h, &h2) {
            *stats.entry(format!("{}/{}/accept:{}", case["op"].as_str().unwrap(), case["variant"].as_str().unwrap(), out["accept"])).or_insert(0) += 1;
            sink.put(&case, &out);
        }
    }
    let total = sink.count;
    sink.finish();
    let st = json!({"stream": "chain", "cases": total, "histogram": stats});
    std::fs::write(format!("{}/chain.stats.json", opts.out), st.to_string()).unwrap();
}

/// a response made for the last stage of `h`, offered in the right and in wrong places
pub fn third_party_cases(rng: &mut StdRng, h: &History, h2: &History) -> Vec<(Value, Value)> {
    let mut res = vec![];
    let a = h.stages.last().unwrap().clone();
    let b = h2.stages.last().unwrap().clone();
    let a_next = a.append(block_builder(rng, false)).unwrap();
    let ext = KeyPair::new_with_rng(alg_of(rng.gen_range(0..2)), rng);
    let other = KeyPair::new_with_rng(Algorithm::Ed25519, rng);
    let tp = a.third_party_request().unwrap().create_block(&ext.private(), { let v33 = rng.gen_range(0..4) == 0; block_builder(rng, v33) }).unwrap();
    let tp_bytes = tp.serialize().unwrap();
    let contents = schema::ThirdPartyBlockContents::decode(&tp_bytes[..]).unwrap();
    let wa = decode(&a.to_vec().unwrap()).unwrap();
    let genuine_prev = hex::encode(&wa.blocks.last().unwrap_or(&wa.authority).signature);
    let resp_j = |c: &schema::ThirdPartyBlockContents| json!({"data": hex::encode(&c.payload), "key": pk_json(&c.external_signature.public_key), "sig": hex::encode(&c.external_signature.signature)});
    // through the verified API
    for (variant, target, expected) in [
        ("same token, same position", &a, ext.public()),
        ("wrong expected key", &a, other.public()),
        ("other token", &b, ext.public()),
        ("same token, one block later", &a_next, ext.public()),
    ] {
        let r = target.append_third_party(expected, tp.clone());
        let mut out = json!({"accept": r.is_ok()});
        if let Ok(t) = &r {
            out["result_verifies"] = json!(Biscuit::from(t.to_vec().unwrap(), h.root.public()).is_ok() || Biscuit::from(t.to_vec().unwrap(), h2.root.public()).is_ok());
            out["ext_keys"] = json!(t.external_public_keys().iter().map(|k| k.as_ref().map(pubkey_json)).collect::<Vec<_>>());
        }
        let case = json!({"op": "tpv", "variant": variant, "target": wire_json(&decode(&target.to_vec().unwrap()).unwrap()),
            "expected": pubkey_json(&expected), "resp": resp_j(&contents), "genuine_prev_sig": genuine_prev});
        res.push((case, out));
    }
    // through the unverified API, then verify: the response as made, and altered
    let mut variants: Vec<(&str, &Biscuit, schema::ThirdPartyBlockContents)> = vec![("genuine", &a, contents.clone()), ("genuine on other token", &b, contents.clone()),
        ("genuine one block later", &a_next, contents.clone())];
    let mut c = contents.clone();
    c.external_signature.public_key = other.public().to_proto();
    variants.push(("key replaced", &a, c));
    let mut c = contents.clone();
    flip(&mut c.external_signature.signature, rng);
    variants.push(("signature flip", &a, c));
    let other_tp = a.third_party_request().unwrap().create_block(&ext.private(), block_builder(rng, false)).unwrap();
    let oc = schema::ThirdPartyBlockContents::decode(&other_tp.serialize().unwrap()[..]).unwrap();
    let mut c = contents.clone();
    c.payload = oc.payload.clone();
    variants.push(("payload of another response", &a, c));
    let mut c = contents.clone();
    c.external_signature.signature = oc.external_signature.signature.clone();
    variants.push(("signature of another response", &a, c));
    for (variant, target, c) in variants {
        let root = if std::ptr::eq(target, &b) { h2.root.public() } else { h.root.public() };
        let mut bytes = vec![];
        c.encode(&mut bytes).unwrap();
        let tb = target.to_vec().unwrap();
        let r = std::panic::catch_unwind(std::panic::AssertUnwindSafe(|| {
            UnverifiedBiscuit::from(&tb).unwrap().append_third_party(&bytes)
        }));
        let (out, subject) = match r {
            Err(e) => (json!({"panic": panic_msg(e), "accept": false}), Value::Null),
            Ok(Err(e)) => (json!({"accept": false, "append_error": format!("{:?}", e).chars().take(100).collect::<String>()}), Value::Null),
            Ok(Ok(u)) => {
                let ub = u.to_vec().unwrap();
                let w = decode(&ub).unwrap();
                (present(&ub, &root), wire_json(&w))
            }
        };
        if subject.is_null() {
            continue;
        }
        let case = json!({"op": "tpu", "variant": variant, "root": pubkey_json(&root), "base": wire_json(&decode(&tb).unwrap()),
            "subject": subject, "genuine": {"resp": resp_j(&contents), "prev_sig": genuine_prev},
            "secrets": secrets_json(&[h, h2], &[&wire_from_json(&subject)])});
        res.push((case, out));
    }
    // the deprecated third-party format (signature version 0: the external signature covers the block and the
    // previous *key* only), made with the genuine keys and appended where the response was made for
    if let Some(schema::proof::Content::NextSecret(sk)) = &wa.proof.content {
        let last = wa.blocks.last().unwrap_or(&wa.authority);
        if let Ok(prev_pk) = PublicKey::from_proto(&last.next_key) {
            if let Ok(sk) = PrivateKey::from_bytes(sk, prev_pk.algorithm().into()) {
                let signer = KeyPair::from(&sk);
                let next = KeyPair::new_with_rng(Algorithm::Ed25519, rng);
                let le = |k: &PublicKey| (k.to_proto().algorithm as i32).to_le_bytes().to_vec();
                let mut m = contents.payload.clone();
                m.extend(le(&prev_pk));
                m.extend(prev_pk.to_bytes());
                if let Ok(es) = ext.sign(&m) {
                    let es = es.to_bytes().to_vec();
                    let mut m2 = contents.payload.clone();
                    m2.extend(&es);
                    m2.extend(le(&next.public()));
                    m2.extend(next.public().to_bytes());
                    if let Ok(bs) = signer.sign(&m2) {
                        let mut w2 = wa.clone();
                        w2.blocks.push(schema::SignedBlock {
                            block: contents.payload.clone(),
                            next_key: next.public().to_proto(),
                            signature: bs.to_bytes().to_vec(),
                            external_signature: Some(schema::ExternalSignature { signature: es, public_key: ext.public().to_proto() }),
                            version: None,
                        });
                        w2.proof = schema::Proof { content: Some(schema::proof::Content::NextSecret(next.private().to_bytes().to_vec())) };
                        let bytes = encode(&w2);
                        let out = present(&bytes, &h.root.public());
                        let case = json!({"op": "chain", "variant": "legacy", "mutation": "third-party block in the deprecated format (external signature over the previous key only) appended with the genuine keys",
                            "stage": 0, "history": h.ops, "root": pubkey_json(&h.root.public()),
                            "honest": [json!({"root": pubkey_json(&h.root.public()), "token": wire_json(&wa)})], "subject": wire_json(&w2),
                            "secrets": secrets_json(&[h, h2], &[&w2])});
                        res.push((case, out));
                    }
                }
            }
        }
    }
    res
}

fn verdict<T, E>(r: Result<T, E>) -> Value {
    json!(if r.is_ok() { "accepted" } else { "refused" })
}

/// operations attempted on the sealed form of `t`
pub fn seal_ops_case(rng: &mut StdRng, h: &History, t: &Biscuit) -> (Value, Value) {
    let sealed = t.seal().unwrap();
    let bytes = sealed.to_vec().unwrap();
    let ext = KeyPair::new_with_rng(Algorithm::Ed25519, rng);
    let tp = t.third_party_request().unwrap().create_block(&ext.private(), block_builder(rng, false)).unwrap();
    let tp_bytes = tp.serialize().unwrap();
    let mut ops = serde_json::Map::new();
    let r = std::panic::catch_unwind(std::panic::AssertUnwindSafe(|| {
        let mut ops = serde_json::Map::new();
        let reloaded = Biscuit::from(&bytes, h.root.public()).unwrap();
        for (name, b) in [("memory", &sealed), ("reloaded", &reloaded)] {
            ops.insert(format!("verified-{name}.append"), verdict(b.append(block_builder(&mut case_rng(1, 1, 1), false))));
            ops.insert(format!("verified-{name}.third_party_request"), verdict(b.third_party_request()));
            ops.insert(format!("verified-{name}.seal"), verdict(b.seal()));
            ops.insert(format!("verified-{name}.append_third_party"), verdict(b.append_third_party(ext.public(), tp.clone())));
        }
        let u_mem = UnverifiedBiscuit::from(&t.to_vec().unwrap()).unwrap().seal().unwrap();
        let u_rel = UnverifiedBiscuit::from(&bytes).unwrap();
        for (name, b) in [("memory", &u_mem), ("reloaded", &u_rel)] {
            ops.insert(format!("unverified-{name}.append"), verdict(b.append(block_builder(&mut case_rng(1, 1, 1), false))));
            ops.insert(format!("unverified-{name}.third_party_request"), verdict(b.third_party_request()));
            ops.insert(format!("unverified-{name}.seal"), verdict(b.seal()));
            ops.insert(format!("unverified-{name}.append_third_party"), verdict(b.append_third_party(&tp_bytes)));
        }
        ops
    }));
    let out = match r {
        Ok(o) => {
            ops = o;
            json!({"ops": ops})
        }
        Err(e) => json!({"panic": panic_msg(e), "ops": ops}),
    };
    let w = decode(&bytes).unwrap();
    let names: Vec<String> = out["ops"].as_object().unwrap().keys().cloned().collect();
    let case = json!({"op": "sealops", "history": h.ops, "subject": wire_json(&w), "ops": names});
    (case, out)
}

/// second phase: real signatures of honest tokens verified, with independent verifiers
/// (ed25519-dalek, p256), over the payload bytes computed by the Lean model
pub fn post(opts: &Opts) {
    use std::io::{BufRead, Write};
    let cases = std::io::BufReader::new(std::fs::File::open(format!("{}/chain.cases.jsonl", opts.out)).unwrap());
    let model = std::io::BufReader::new(std::fs::File::open(format!("{}/chain.model.jsonl", opts.out)).unwrap());
    let mut outf = std::io::BufWriter::new(std::fs::File::create(format!("{}/chain.post.jsonl", opts.out)).unwrap());
    for (_c, m) in cases.lines().zip(model.lines()) {
        let m: Value = serde_json::from_str(&m.unwrap()).unwrap_or(Value::Null);
        let mut checked = 0;
        let mut failed = vec![];
        if let Some(ps) = m.get("payloads").and_then(|p| p.as_array()) {
            for p in ps {
                let alg = p["key"]["alg"].as_i64().unwrap();
                let key = hex::decode(p["key"]["bytes"].as_str().unwrap()).unwrap();
                let msg = hex::decode(p["msg"].as_str().unwrap()).unwrap();
                let sig = hex::decode(p["sig"].as_str().unwrap()).unwrap();
                let ok = if alg == 0 {
                    (|| {
                        let k: [u8; 32] = key.as_slice().try_into().ok()?;
                        let vk = ed25519_dalek::VerifyingKey::from_bytes(&k).ok()?;
                        let s = ed25519_dalek::Signature::from_slice(&sig).ok()?;
                        vk.verify_strict(&msg, &s).ok()
                    })()
                    .is_some()
                } else {
                    (|| {
                        use p256::ecdsa::signature::Verifier;
                        let vk = p256::ecdsa::VerifyingKey::from_sec1_bytes(&key).ok()?;
                        let s = p256::ecdsa::Signature::from_der(&sig).ok()?;
                        vk.verify(&msg, &s).ok()
                    })()
                    .is_some()
                };
                checked += 1;
                if !ok {
                    failed.push(p["what"].clone());
                }
            }
        }
        writeln!(outf, "{}", json!({"checked": checked, "failed": failed})).unwrap();
    }
    outf.flush().unwrap();
}
