//! vh — correspondence harness: generates cases from one seeded PRNG, runs the
//! real biscuit-rust code on them, and writes `<stream>.cases.jsonl` (fed to the
//! Lean driver) and `<stream>.impl.jsonl` (the implementation's outcomes).
mod common;
mod jsonio;
mod prog;
mod s_atten;
mod s_authz;
mod s_blockparse;
mod s_capi;
mod s_chain;
mod s_convert;
mod s_determ;
mod s_engine;
mod s_expr;
mod s_exprparse;
mod s_itemparse;
mod s_keys;
mod s_limits;
mod s_macros;
mod s_origins;
mod s_params;
mod s_print;
mod s_snapshot;
mod s_symbols;
mod s_termparse;
mod s_untrusted;
mod s_versions;

use std::env;

fn main() {
    let args: Vec<String> = env::args().collect();
    if args.len() < 2 {
        eprintln!("usage: vh <stream> [--seed N] [--n N] [--tier quick|thorough] [--out DIR] [--replay FILE]");
        std::process::exit(2);
    }
    let opts = common::Opts::parse(&args[2..]);
    // panics are outcomes, not crashes: keep the default hook quiet
    if env::var("VH_PANIC").is_err() {
        std::panic::set_hook(Box::new(|_| {}));
    }
    match args[1].as_str() {
        "expr" => s_expr::run(&opts),
        "engine" => s_engine::run(&opts),
        "authz" => s_authz::run(&opts),
        "atten" => s_atten::run(&opts),
        "determ" => s_determ::run(&opts),
        "limits" => s_limits::run(&opts),
        "chain" => s_chain::run(&opts),
        "chainpost" => s_chain::post(&opts),
        "versions" => s_versions::run(&opts),
        "symbols" => s_symbols::run(&opts),
        "snapshot" => s_snapshot::run(&opts),
        "print" => s_print::run(&opts),
        "params" => s_params::run(&opts),
        "keys" => s_keys::run(&opts),
        "termparse" => s_termparse::run(&opts),
        "exprparse" => s_exprparse::run(&opts),
        "itemparse" => s_itemparse::run(&opts),
        "blockparse" => s_blockparse::run(&opts),
        "convert" => s_convert::run(&opts),
        "origins" => s_origins::run(&opts),
        "macros" => s_macros::run(&opts),
        "capi" => s_capi::run(&opts),
        "capi-child" => s_capi::child(&opts),
        "untrusted" => s_untrusted::run(&opts),
        "untrusted-child" => s_untrusted::child(&opts),
        "parsetext" => s_print::parsetext(),
        other => {
            eprintln!("unknown stream {other}");
            std::process::exit(2);
        }
    }
}
