//! stream `termparse`: the term / fact parser against its Lean model (C14)
//!
//! A case is a text.  The implementation side is `biscuit_parser::parser::fact_inner` itself:
//! the parsed fact and how many characters were left, or which of nom's two error classes
//! came back (`Error`: an enclosing `alt` would go on; `Failure`: committed by a `cut`).
//! RFC 3339 parsing belongs to the `time` crate: the case carries, for every place a date
//! token could start, what `time` (called directly here) makes of the token.
use crate::common::*;
use crate::s_print::{gen_pred, pred_j};
use biscuit_parser::builder::{MapKey, Term};
use rand::rngs::StdRng;
use rand::Rng;
use serde_json::{json, Value};
use std::collections::BTreeMap;

pub(crate) fn term_j(t: &Term) -> Value {
    match t {
        Term::Variable(v) => json!({"var": v}),
        Term::Integer(i) => json!({"int": i}),
        Term::Str(s) => json!({"str": s}),
        Term::Date(d) => json!({"date": d}),
        Term::Bytes(b) => json!({"bytes": hex::encode(b)}),
        Term::Bool(b) => json!({"bool": b}),
        Term::Null => json!({"null": true}),
        Term::Set(s) => json!({"set": s.iter().map(term_j).collect::<Vec<_>>()}),
        Term::Array(a) => json!({"arr": a.iter().map(term_j).collect::<Vec<_>>()}),
        Term::Map(m) => json!({"map": m.iter().map(|(k, v)| json!([key_j(k), term_j(v)])).collect::<Vec<_>>()}),
        Term::Parameter(p) => json!({"param": p}),
    }
}

fn key_j(k: &MapKey) -> Value {
    match k {
        MapKey::Integer(i) => json!({"int": i}),
        MapKey::Str(s) => json!({"str": s}),
        MapKey::Parameter(p) => json!({"param": p}),
    }
}

fn is_delim(c: char) -> bool {
    matches!(c, ',' | ' ' | ')' | ']' | ';' | '}')
}

/// what `time` makes of every token that starts with a digit (the token runs to the next delimiter, as in
/// `parse_date`); only the tokens it accepts are listed
pub fn date_table(text: &str) -> Vec<Value> {
    let chars: Vec<(usize, char)> = text.char_indices().collect();
    let mut seen: BTreeMap<String, u64> = BTreeMap::new();
    for (k, (p, c)) in chars.iter().enumerate() {
        if !c.is_ascii_digit() {
            continue;
        }
        let end = chars[k..].iter().find(|(_, c)| is_delim(*c)).map(|(q, _)| *q).unwrap_or(text.len());
        let tok = &text[*p..end];
        if seen.contains_key(tok) {
            continue;
        }
        if let Ok(t) = time::OffsetDateTime::parse(tok, &time::format_description::well_known::Rfc3339) {
            if let Ok(u) = u64::try_from(t.unix_timestamp()) {
                seen.insert(tok.to_string(), u);
            }
        }
    }
    seen.into_iter().map(|(k, v)| json!([k, v])).collect()
}

pub fn run_case(case: &Value) -> Value {
    let text = case["text"].as_str().unwrap().to_string();
    let r = std::panic::catch_unwind(|| match biscuit_parser::parser::fact_inner(&text) {
        Ok((rest, f)) => json!({
            "r": "ok",
            "rest": rest.chars().count(),
            "name": f.predicate.name,
            "terms": f.predicate.terms.iter().map(term_j).collect::<Vec<_>>(),
        }),
        Err(nom::Err::Error(_)) => json!({"r": "err"}),
        Err(nom::Err::Failure(_)) => json!({"r": "fail"}),
        Err(nom::Err::Incomplete(_)) => json!({"r": "incomplete"}),
    });
    match r {
        Ok(v) => v,
        Err(e) => json!({"panic": panic_msg(e)}),
    }
}

const FRAGS: [&str; 58] = [
    "f", "ns:p", "(", ")", "[", "]", "{", "}", ",", ", ", ":", ": ", " ", "\t", "\"a\"", "\"\"", "\"x\\\"y\"", "\"", "\\", "1", "-1", "0",
    "-", "42", "9223372036854775807", "-9223372036854775808", "9223372036854775808", "true", "false", "null", "nul", "hex:ab", "hex:",
    "hex:a", "hex:AB", "hex:0g", "{x}", "{x1:y_}", "{1}", "{,}", "{, }", "{}", "[]", "2020-01-01T00:00:00Z", "1970-01-01T00:00:00Z",
    "2020-01-01T00:00:00+01:00", "2020-13-01T00:00:00Z", "2020-01-01", "$v", "$", ";", "\n", "\u{142}", "\u{ff22}", "\u{e9}", "truex", "{true}",
    "a1",
];

const INS: [char; 30] = [
    ' ', '\t', ',', ':', '(', ')', '[', ']', '{', '}', '"', '\\', '-', '0', '9', 'a', 'f', 'g', 'T', 'Z', '$', ';', '\n', 'x', '_', '\u{142}',
    '\u{ff22}', 'n', 't', 'h',
];

fn spaced(rng: &mut StdRng, text: &str) -> String {
    // extra blanks where the grammar allows them: before and after separators and brackets
    let mut out = String::new();
    let mut in_str = false;
    let mut esc = false;
    for c in text.chars() {
        if in_str {
            out.push(c);
            if esc {
                esc = false;
            } else if c == '\\' {
                esc = true;
            } else if c == '"' {
                in_str = false;
            }
            continue;
        }
        if c == '"' {
            in_str = true;
            out.push(c);
            continue;
        }
        let before_ok = match c {
            ',' | ']' | '}' | ')' => true,
            // a colon outside a string is a key separator only after a string or a parameter key
            ':' => out.ends_with('"') || out.ends_with('}'),
            _ => false,
        };
        if before_ok && rng.gen_range(0..3) == 0 {
            out.push(*pick(rng, &[' ', '\t']));
        }
        out.push(c);
        if matches!(c, ',' | '(' | '[') && rng.gen_range(0..3) == 0 {
            out.push(*pick(rng, &[' ', '\t', ' ']));
        }
    }
    out
}

fn mutate(rng: &mut StdRng, text: &str) -> String {
    let mut cs: Vec<char> = text.chars().collect();
    for _ in 0..rng.gen_range(1..4) {
        if cs.is_empty() {
            cs.push(*pick(rng, &INS));
            continue;
        }
        let p = rng.gen_range(0..cs.len());
        match rng.gen_range(0..5) {
            0 => {
                cs.remove(p);
            }
            1 => cs.insert(p, *pick(rng, &INS)),
            2 => cs[p] = *pick(rng, &INS),
            3 => cs.truncate(p),
            _ => {
                let q = rng.gen_range(0..cs.len());
                cs.swap(p, q);
            }
        }
    }
    cs.into_iter().collect()
}

fn soup(rng: &mut StdRng) -> String {
    let mut s = String::new();
    if rng.gen_range(0..4) != 0 {
        let h: &str = *pick(rng, &["f(", "f (", " ns:p(", "x1( "]);
        s.push_str(h);
    }
    for _ in 0..rng.gen_range(0..12) {
        let f: &str = *pick(rng, &FRAGS);
        s.push_str(f);
    }
    if rng.gen() {
        s.push(')');
    }
    s
}

pub fn gen_case(rng: &mut StdRng, i: usize) -> Value {
    let honest = biscuit_auth::builder::Fact { predicate: gen_pred(rng, false), parameters: None };
    let printed = honest.to_string();
    let (gen, text, item) = match i % 8 {
        0 | 1 => {
            let tail = *pick(rng, &["", "", ";", " ;\n", ", g(1)", " <- x", ")"]);
            ("printed", format!("{printed}{tail}"), Some(pred_j(&honest.predicate)))
        }
        2 => ("spaced", spaced(rng, &printed), Some(pred_j(&honest.predicate))),
        3 | 4 | 5 => ("mutated", mutate(rng, &printed), None),
        _ => ("soup", soup(rng), None),
    };
    let mut c = json!({"op": "termparse", "gen": gen, "text": text, "dates": date_table(&text)});
    if let Some(it) = item {
        c["item"] = it;
    }
    c
}

pub fn run(opts: &Opts) {
    let mut sink = Sink::new(opts, "termparse");
    let mut stats: BTreeMap<String, u64> = BTreeMap::new();
    let mut emit = |sink: &mut Sink, mut case: Value| {
        // the table is recomputed on replay too: it is an observation of `time`, not part of the input
        let text = case["text"].as_str().unwrap().to_string();
        case["dates"] = Value::Array(date_table(&text));
        let out = run_case(&case);
        let k = if out.get("panic").is_some() { "PANIC".to_string() } else { out["r"].as_str().unwrap_or("?").to_string() };
        *stats.entry(format!("{}/{}", case["gen"].as_str().unwrap_or("replay"), k)).or_insert(0) += 1;
        sink.put(&case, &out);
    };
    if let Some(path) = &opts.replay {
        for case in read_cases(path) {
            emit(&mut sink, case);
        }
        sink.finish();
        return;
    }
    for case in read_cases("corpus/termparse.jsonl") {
        emit(&mut sink, case);
    }
    let n = if opts.n > 0 { opts.n } else if opts.thorough { 120_000 } else { 8_000 };
    for i in 0..n {
        let mut rng = case_rng(opts.seed, 23, i as u64);
        let case = gen_case(&mut rng, i);
        emit(&mut sink, case);
    }
    let total = sink.count;
    sink.finish();
    let st = json!({"stream": "termparse", "cases": total, "histogram": stats});
    std::fs::write(format!("{}/termparse.stats.json", opts.out), st.to_string()).unwrap();
}
