//! stream `untrusted`: untrusted bytes never crash or hang the library (C09)
//!
//! Every case is self-contained (the bytes or text it feeds are in the case). The cases run in a
//! child process, one outcome line flushed per case: when the child dies (abort, stack
//! overflow) or stops making progress (hang), the case it was on gets the outcome
//! `{"abort": ...}` and a new child continues with the next one.
//!
//! * `entry`: random and damaged bytes / text into every entry point that takes external data;
//! * `token`: correctly signed tokens whose block contents are adversarial (out-of-range symbol,
//!   key and variable ids, malformed op sequences, unknown enum values, empty oneofs, wrong
//!   versions, duplicated tables, deep nesting), then the full accessor sweep on what loads;
//! * `snapshot`: adversarial authorizer snapshots, then every operation on what loads;
//! * `source`: Datalog source with bad keys, deep nesting, stray syntax.
use crate::common::*;
use crate::prog::Keys;
use crate::s_chain::{decode, encode};
use crate::s_print::gen_item;
use biscuit_auth::builder::{Algorithm, AuthorizerBuilder, BiscuitBuilder, BlockBuilder, Check, Fact, Policy, Rule};
use biscuit_auth::datalog::RunLimits;
use biscuit_auth::format::schema;
use biscuit_auth::{Authorizer, AuthorizerLimits, Biscuit, KeyPair, PrivateKey, PublicKey, ThirdPartyRequest, UnverifiedBiscuit};
use prost::Message;
use rand::rngs::StdRng;
use rand::Rng;
use serde_json::{json, Value};
use std::collections::BTreeMap;
use std::convert::TryFrom;
use std::time::Duration;

fn le32(n: u32) -> [u8; 4] {
    n.to_le_bytes()
}

fn block_payload_v1(data: &[u8], alg: i32, key: &[u8], prev_sig: &[u8], ext_sig: Option<&[u8]>) -> Vec<u8> {
    let mut v = b"\0BLOCK\0\0VERSION\0".to_vec();
    v.extend(le32(1));
    v.extend(b"\0PAYLOAD\0");
    v.extend(data);
    v.extend(b"\0ALGORITHM\0");
    v.extend((alg as u32).to_le_bytes());
    v.extend(b"\0NEXTKEY\0");
    v.extend(key);
    v.extend(b"\0PREVSIG\0");
    v.extend(prev_sig);
    if let Some(e) = ext_sig {
        v.extend(b"\0EXTERNALSIG\0");
        v.extend(e);
    }
    v
}

fn external_payload_v1(data: &[u8], prev_sig: &[u8]) -> Vec<u8> {
    let mut v = b"\0EXTERNAL\0\0VERSION\0".to_vec();
    v.extend(le32(1));
    v.extend(b"\0PAYLOAD\0");
    v.extend(data);
    v.extend(b"\0PREVSIG\0");
    v.extend(prev_sig);
    v
}

/// a token whose blocks are the given byte strings, every block correctly signed
fn craft_token(root: &KeyPair, blocks: &[(Vec<u8>, Option<usize>)], keys: &Keys, rng: &mut StdRng) -> Vec<u8> {
    let mut signer = KeyPair::from(&root.private());
    let mut signed: Vec<schema::SignedBlock> = vec![];
    for (i, (data, ext)) in blocks.iter().enumerate() {
        let next = KeyPair::new_with_rng(Algorithm::Ed25519, rng);
        let next_pk = next.public().to_proto();
        if i == 0 {
            // authority: signature version 0
            let mut payload = data.clone();
            payload.extend((next_pk.algorithm as i32).to_le_bytes());
            payload.extend(&next_pk.key);
            let sig = signer.sign(&payload).unwrap();
            signed.push(schema::SignedBlock { block: data.clone(), next_key: next_pk, signature: sig.to_bytes().to_vec(), external_signature: None, version: None });
        } else {
            let prev_sig = signed.last().unwrap().signature.clone();
            let ext_sig = ext.map(|k| {
                let kp = &keys.ext[k];
                let s = kp.sign(&external_payload_v1(data, &prev_sig)).unwrap();
                schema::ExternalSignature { signature: s.to_bytes().to_vec(), public_key: kp.public().to_proto() }
            });
            let payload = block_payload_v1(data, next_pk.algorithm, &next_pk.key, &prev_sig, ext_sig.as_ref().map(|e| &e.signature[..]));
            let sig = signer.sign(&payload).unwrap();
            signed.push(schema::SignedBlock { block: data.clone(), next_key: next_pk, signature: sig.to_bytes().to_vec(), external_signature: ext_sig, version: Some(1) });
        }
        signer = next;
    }
    let authority = signed.remove(0);
    encode(&schema::Biscuit {
        root_key_id: None,
        authority,
        blocks: signed,
        proof: schema::Proof { content: Some(schema::proof::Content::NextSecret(signer.private().to_bytes().to_vec())) },
    })
}

fn legit_block(rng: &mut StdRng, keys: &Keys) -> schema::Block {
    let item = gen_item(rng, "block", keys, false);
    let text = crate::s_print::run_case(&json!({"kind": "block", "item": item}), keys)["text"].as_str().unwrap_or("f(1);").to_string();
    let bb = BlockBuilder::new().code(&text).unwrap_or_else(|_| BlockBuilder::new().code("f(1); check if f($x), $x > 0;").unwrap());
    let t = BiscuitBuilder::new().merge(bb).build(&keys.root).unwrap();
    let w = decode(&t.to_vec().unwrap()).unwrap();
    schema::Block::decode(&w.authority.block[..]).unwrap()
}

fn term(c: schema::term_v2::Content) -> schema::TermV2 {
    schema::TermV2 { content: Some(c) }
}

fn nested_array(depth: usize) -> schema::TermV2 {
    let mut t = term(schema::term_v2::Content::Integer(1));
    for _ in 0..depth {
        t = term(schema::term_v2::Content::Array(schema::Array { array: vec![t] }));
    }
    t
}

fn nested_closure(depth: usize) -> schema::Op {
    let mut ops = vec![schema::Op { content: Some(schema::op::Content::Value(term(schema::term_v2::Content::Bool(true)))) }];
    for i in 0..depth {
        ops = vec![schema::Op { content: Some(schema::op::Content::Closure(schema::OpClosure { params: vec![2000 + i as u32], ops })) }];
    }
    ops.remove(0)
}

fn bad_id(rng: &mut StdRng, b: &schema::Block) -> u64 {
    *pick(rng, &[999u64, 1023, 28, 29, 1024 + b.symbols.len() as u64, 1024 + b.symbols.len() as u64 + 7, u32::MAX as u64, u32::MAX as u64 + 1, u64::MAX])
}

fn bad_term(rng: &mut StdRng, b: &schema::Block) -> schema::TermV2 {
    use schema::term_v2::Content as C;
    match rng.gen_range(0..14) {
        0 => schema::TermV2 { content: None },
        1 => term(C::Variable(*pick(rng, &[77u32, 1023, 5000, u32::MAX]))),
        2 => term(C::String(bad_id(rng, b))),
        3 => term(C::Set(schema::TermSet { set: vec![] })),
        4 => term(C::Set(schema::TermSet { set: vec![term(C::Variable(0))] })),
        5 => term(C::Set(schema::TermSet { set: vec![term(C::Set(schema::TermSet { set: vec![term(C::Integer(1))] }))] })),
        6 => term(C::Set(schema::TermSet { set: vec![term(C::Integer(1)), term(C::Bool(true))] })),
        7 => nested_array(*pick(rng, &[10usize, 40, 90])),
        8 => term(C::Map(schema::Map { entries: vec![schema::MapEntry { key: schema::MapKey { content: None }, value: term(C::Integer(1)) }] })),
        9 => term(C::Map(schema::Map { entries: vec![schema::MapEntry { key: schema::MapKey { content: Some(schema::map_key::Content::String(bad_id(rng, b))) }, value: schema::TermV2 { content: None } }] })),
        10 => term(C::Date(u64::MAX)),
        11 => term(C::Integer(i64::MIN)),
        12 => term(C::Set(schema::TermSet { set: vec![term(C::String(bad_id(rng, b)))] })),
        _ => term(C::Array(schema::Array { array: vec![schema::TermV2 { content: None }, term(C::String(bad_id(rng, b)))] })),
    }
}

fn bad_ops(rng: &mut StdRng, b: &schema::Block) -> Vec<schema::Op> {
    use schema::op::Content as O;
    let v = |t: schema::TermV2| schema::Op { content: Some(O::Value(t)) };
    let un = |k: i32, f: Option<u64>| schema::Op { content: Some(O::Unary(schema::OpUnary { kind: k, ffi_name: f })) };
    let bin = |k: i32, f: Option<u64>| schema::Op { content: Some(O::Binary(schema::OpBinary { kind: k, ffi_name: f })) };
    let one = || term(schema::term_v2::Content::Integer(1));
    match rng.gen_range(0..16) {
        0 => vec![],
        1 => vec![bin(0, None)],
        2 => vec![v(one()), v(one())],
        3 => vec![v(one()), un(99, None)],
        4 => vec![v(one()), v(one()), bin(99, None)],
        5 => vec![v(one()), un(4, None)],               // Ffi without a name
        6 => vec![v(one()), un(4, Some(bad_id(rng, b)))],
        7 => vec![v(one()), v(one()), bin(28, Some(bad_id(rng, b)))],
        8 => vec![v(one()), un(0, Some(3))],            // a name on a non-ffi operation
        9 => vec![schema::Op { content: None }],
        10 => vec![v(one()), nested_closure(*pick(rng, &[5usize, 30, 60])), bin(23, None)],
        11 => vec![v(bad_term(rng, b))],
        12 => vec![v(one()), schema::Op { content: Some(O::Closure(schema::OpClosure { params: vec![0, 0], ops: vec![v(one())] })) }, bin(25, None)],
        13 => vec![v(one()), schema::Op { content: Some(O::Closure(schema::OpClosure { params: vec![], ops: vec![] })) }, bin(23, None)],
        14 => vec![un(0, None)],
        _ => vec![v(one()), un(1, None), un(1, None), un(2, None), bin(7, None)],
    }
}

/// one adversarial change to a block (the description goes into the case)
fn mutate_block(rng: &mut StdRng, b: &mut schema::Block) -> String {
    use schema::scope::Content as S;
    if b.facts_v2.is_empty() {
        b.facts_v2.push(schema::FactV2 { predicate: schema::PredicateV2 { name: 1024, terms: vec![term(schema::term_v2::Content::Integer(1))] } });
        if b.symbols.is_empty() {
            b.symbols.push("f".into());
        }
    }
    let q = |body: Vec<schema::PredicateV2>, e: Vec<schema::ExpressionV2>, scope: Vec<schema::Scope>| schema::RuleV2 {
        head: schema::PredicateV2 { name: 1024, terms: vec![] },
        body,
        expressions: e,
        scope,
    };
    match rng.gen_range(0..22) {
        0 => {
            let v = *pick(rng, &[Some(0u32), Some(1), Some(2), Some(7), Some(u32::MAX), None]);
            b.version = v;
            format!("version {:?}", v)
        }
        1 => {
            let id = bad_id(rng, b);
            let i = rng.gen_range(0..b.facts_v2.len());
            b.facts_v2[i].predicate.name = id;
            format!("fact name id {id}")
        }
        2 | 3 => {
            let t = bad_term(rng, b);
            let i = rng.gen_range(0..b.facts_v2.len());
            let d = format!("fact term {:?}", t).chars().take(80).collect::<String>();
            b.facts_v2[i].predicate.terms.push(t);
            d
        }
        4 => {
            b.rules_v2.push(q(vec![schema::PredicateV2 { name: 1024, terms: vec![term(schema::term_v2::Content::Variable(5))] }], vec![], vec![]));
            let n = b.rules_v2.len() - 1;
            b.rules_v2[n].head.terms.push(term(schema::term_v2::Content::Variable(4242)));
            "rule head variable not bound".into()
        }
        5 | 6 | 7 => {
            let ops = bad_ops(rng, b);
            let d = format!("check ops {:?}", ops).chars().take(100).collect::<String>();
            b.checks_v2.push(schema::CheckV2 { queries: vec![q(vec![], vec![schema::ExpressionV2 { ops }], vec![])], kind: None });
            d
        }
        8 => {
            let ops = bad_ops(rng, b);
            b.rules_v2.push(q(vec![schema::PredicateV2 { name: 1024, terms: vec![term(schema::term_v2::Content::Variable(5))] }], vec![schema::ExpressionV2 { ops }], vec![]));
            "rule with bad ops".into()
        }
        9 => {
            let s = match rng.gen_range(0..5) {
                0 => schema::Scope { content: None },
                1 => schema::Scope { content: Some(S::ScopeType(9)) },
                2 => schema::Scope { content: Some(S::PublicKey(99)) },
                3 => schema::Scope { content: Some(S::PublicKey(-1)) },
                _ => schema::Scope { content: Some(S::PublicKey(i64::MAX)) },
            };
            let d = format!("scope {:?}", s);
            if rng.gen() {
                b.scope.push(s);
            } else {
                b.checks_v2.push(schema::CheckV2 { queries: vec![q(vec![schema::PredicateV2 { name: 1024, terms: vec![term(schema::term_v2::Content::Variable(5))] }], vec![], vec![s])], kind: None });
            }
            d
        }
        10 => {
            let k = match rng.gen_range(0..5) {
                0 => schema::PublicKey { algorithm: 7, key: vec![1; 32] },
                1 => schema::PublicKey { algorithm: 0, key: vec![1; 5] },
                2 => schema::PublicKey { algorithm: 1, key: vec![2; 32] },
                3 => schema::PublicKey { algorithm: 0, key: vec![0xff; 32] },
                _ => b.public_keys.first().cloned().unwrap_or(schema::PublicKey { algorithm: 0, key: vec![] }),
            };
            let d = format!("public key table entry alg {} len {}", k.algorithm, k.key.len());
            b.public_keys.push(k);
            d
        }
        11 => {
            let s = match rng.gen_range(0..5) {
                0 => "read".to_string(),
                1 => b.symbols.first().cloned().unwrap_or_default(),
                2 => String::new(),
                3 => "x".repeat(100_000),
                _ => "query".to_string(),
            };
            let d = format!("symbol table entry {:?}", s.chars().take(12).collect::<String>());
            b.symbols.push(s);
            d
        }
        12 => {
            let k = *pick(rng, &[Some(9i32), Some(-1), Some(3), Some(2)]);
            b.checks_v2.push(schema::CheckV2 { queries: vec![q(vec![schema::PredicateV2 { name: 1024, terms: vec![term(schema::term_v2::Content::Variable(5))] }], vec![], vec![])], kind: k });
            format!("check kind {:?}", k)
        }
        13 => {
            b.checks_v2.push(schema::CheckV2 { queries: vec![], kind: None });
            "check without queries".into()
        }
        14 => {
            b.context = Some("c".repeat(100_000));
            "huge context".into()
        }
        15 => {
            let f = b.facts_v2[0].clone();
            for _ in 0..3000 {
                b.facts_v2.push(f.clone());
            }
            "3000 copies of a fact".into()
        }
        16 => {
            b.checks_v2.push(schema::CheckV2 { queries: vec![q(vec![], vec![], vec![])], kind: None });
            "check with an empty query".into()
        }
        17 => {
            // a rule that derives without bound: max_facts / max_iterations must stop it
            b.rules_v2.push(schema::RuleV2 {
                head: schema::PredicateV2 { name: 1024, terms: vec![term(schema::term_v2::Content::Variable(5)), term(schema::term_v2::Content::Variable(6))] },
                body: vec![schema::PredicateV2 { name: 1024, terms: vec![term(schema::term_v2::Content::Variable(6)), term(schema::term_v2::Content::Variable(5))] }],
                expressions: vec![],
                scope: vec![],
            });
            "swap rule".into()
        }
        18 => {
            let id = bad_id(rng, b);
            b.checks_v2.push(schema::CheckV2 { queries: vec![q(vec![schema::PredicateV2 { name: id, terms: vec![term(schema::term_v2::Content::Variable(*pick(rng, &[5u32, 1023, 70000])))] }], vec![], vec![])], kind: None });
            format!("check predicate id {id}")
        }
        19 => {
            b.symbols.clear();
            "symbol table emptied".into()
        }
        20 => {
            b.public_keys.clear();
            "public key table emptied".into()
        }
        _ => {
            let t = bad_term(rng, b);
            b.checks_v2.push(schema::CheckV2 { queries: vec![q(vec![schema::PredicateV2 { name: 1024, terms: vec![t] }], vec![], vec![])], kind: None });
            "check body bad term".into()
        }
    }
}

fn limits() -> AuthorizerLimits {
    AuthorizerLimits { max_facts: 200, max_iterations: 20, max_time: Duration::from_millis(500) }
}

fn ok<T, E>(r: &Result<T, E>) -> &'static str {
    if r.is_ok() { "ok" } else { "err" }
}

fn sweep_authorizer(mut a: Authorizer) -> Value {
    let mut o = serde_json::Map::new();
    o.insert("print_world".into(), json!(a.print_world().len() > 0 || true));
    o.insert("dump_code".into(), json!(a.dump_code().len()));
    let d = a.dump();
    o.insert("dump".into(), json!(d.0.len() + d.1.len() + d.2.len() + d.3.len()));
    o.insert("snapshot".into(), json!(ok(&a.to_raw_snapshot())));
    o.insert("save".into(), json!(ok(&a.save())));
    o.insert("authorize".into(), json!(ok(&a.authorize_with_limits(limits()))));
    o.insert("query".into(), json!(ok(&a.query_with_limits::<_, Fact, _>("data($x) <- f($x)", limits()))));
    o.insert("query_all".into(), json!(ok(&a.query_all_with_limits::<_, Fact, _>("data($x) <- f($x)", limits()))));
    o.insert("dump_code_after".into(), json!(a.dump_code().len()));
    o.insert("to_string_after".into(), json!(a.to_string().len()));
    o.insert("snapshot_after".into(), json!(ok(&a.to_raw_snapshot())));
    o.insert("iterations".into(), json!(a.iterations()));
    o.insert("fact_count".into(), json!(a.fact_count()));
    // answers converted to the Rust types a caller asks for: every date, integer and string a token can carry
    o.insert("query_as_time".into(), json!(ok(&a.query_all_with_limits::<_, (std::time::SystemTime,), _>("data($t) <- time($t)", limits()))));
    o.insert("query_as_int".into(), json!(ok(&a.query_all_with_limits::<_, (i64,), _>("data($t) <- num($t)", limits()))));
    // the same calls under the object's own limits (what is left of them after the time already spent)
    o.insert("query_all_own_limits".into(), json!(ok(&a.query_all::<_, Fact, _>("data($x) <- f($x)"))));
    o.insert("query_own_limits".into(), json!(ok(&a.query::<_, Fact, _>("data($x) <- f($x)"))));
    o.insert("authorize_own_limits".into(), json!(ok(&a.authorize())));
    Value::Object(o)
}

fn sweep_token(t: &Biscuit, keys: &Keys) -> Value {
    let mut o = serde_json::Map::new();
    let n = t.block_count();
    o.insert("count".into(), json!(n));
    let mut idx = vec![];
    for i in 0..n + 3 {
        idx.push(json!({
            "i": i,
            "print_block_source": ok(&t.print_block_source(i)),
            "block_version": ok(&t.block_version(i)),
            "block_symbols": ok(&t.block_symbols(i)),
            "block_public_keys": ok(&t.block_public_keys(i)),
            "block_external_key": ok(&t.block_external_key(i)),
        }));
    }
    o.insert("idx".into(), Value::Array(idx));
    o.insert("print".into(), json!(t.print().len()));
    o.insert("display".into(), json!(t.to_string().len()));
    o.insert("context".into(), json!(t.context().len()));
    o.insert("revocation_identifiers".into(), json!(t.revocation_identifiers().len()));
    o.insert("external_public_keys".into(), json!(t.external_public_keys().len()));
    o.insert("root_key_id".into(), json!(t.root_key_id()));
    o.insert("to_vec".into(), json!(ok(&t.to_vec())));
    o.insert("to_base64".into(), json!(ok(&t.to_base64())));
    o.insert("serialized_size".into(), json!(ok(&t.serialized_size())));
    o.insert("seal".into(), json!(ok(&t.seal())));
    o.insert("append".into(), json!(ok(&t.append(BlockBuilder::new().code("g(2); check if g($x);").unwrap()))));
    o.insert("third_party_request".into(), json!(ok(&t.third_party_request())));
    if let Ok(req) = t.third_party_request() {
        let blk = req.create_block(&keys.ext[0].private(), BlockBuilder::new().code("tp(1);").unwrap());
        o.insert("third_party_block".into(), json!(ok(&blk)));
        if let Ok(blk) = blk {
            o.insert("append_third_party".into(), json!(ok(&t.append_third_party(keys.ext[0].public(), blk))));
        }
    }
    match AuthorizerBuilder::new().code("allow if true;").unwrap().limits(limits()).build(t) {
        Ok(a) => {
            o.insert("authorizer".into(), sweep_authorizer(a));
        }
        Err(_) => {
            o.insert("authorizer".into(), json!("err"));
        }
    }
    o.insert("authorizer_default".into(), json!(ok(&t.authorizer())));
    Value::Object(o)
}

fn sweep_unverified(u: &UnverifiedBiscuit, keys: &Keys) -> Value {
    let mut o = serde_json::Map::new();
    let n = u.block_count();
    o.insert("count".into(), json!(n));
    let mut idx = vec![];
    for i in 0..n + 3 {
        idx.push(json!({"i": i, "print_block_source": ok(&u.print_block_source(i)), "block_version": ok(&u.block_version(i))}));
    }
    o.insert("idx".into(), Value::Array(idx));
    o.insert("revocation_identifiers".into(), json!(u.revocation_identifiers().len()));
    o.insert("external_public_keys".into(), json!(u.external_public_keys().len()));
    o.insert("root_key_id".into(), json!(u.root_key_id()));
    o.insert("to_vec".into(), json!(ok(&u.to_vec())));
    o.insert("seal".into(), json!(ok(&u.seal())));
    o.insert("append".into(), json!(ok(&u.append(BlockBuilder::new().code("g(2);").unwrap()))));
    o.insert("third_party_request".into(), json!(ok(&u.third_party_request())));
    if let Ok(req) = u.third_party_request() {
        if let Ok(blk) = req.create_block(&keys.ext[0].private(), BlockBuilder::new().code("tp(1);").unwrap()) {
            o.insert("append_third_party".into(), json!(ok(&u.append_third_party(&blk.serialize().unwrap()))));
        }
    }
    o.insert("verify".into(), json!(ok(&u.clone().verify(keys.root.public()))));
    Value::Object(o)
}

fn bytes_of(case: &Value) -> Vec<u8> {
    hex::decode(case["hex"].as_str().unwrap_or("")).unwrap_or_default()
}

pub fn run_case(case: &Value, keys: &Keys) -> Value {
    let r = std::panic::catch_unwind(std::panic::AssertUnwindSafe(|| match case["kind"].as_str().unwrap() {
        "token" => {
            let bytes = bytes_of(case);
            let mut o = serde_json::Map::new();
            match Biscuit::from(&bytes, keys.root.public()) {
                Ok(t) => {
                    o.insert("from".into(), json!("ok"));
                    o.insert("sweep".into(), sweep_token(&t, keys));
                }
                Err(e) => {
                    o.insert("from".into(), json!("err"));
                    o.insert("e".into(), json!(format!("{:?}", e).chars().take(160).collect::<String>()));
                }
            }
            match UnverifiedBiscuit::from(&bytes) {
                Ok(u) => {
                    o.insert("unverified".into(), json!("ok"));
                    o.insert("usweep".into(), sweep_unverified(&u, keys));
                }
                Err(_) => {
                    o.insert("unverified".into(), json!("err"));
                }
            }
            o.insert("base64".into(), json!(ok(&Biscuit::from_base64(base64::encode_config(&bytes, base64::URL_SAFE), keys.root.public()))));
            Value::Object(o)
        }
        "third_party" => {
            // adversarial third-party block contents, signed by the external key, offered to both token kinds
            let base = Biscuit::from(hex::decode(case["base"].as_str().unwrap()).unwrap(), keys.root.public()).unwrap();
            let contents = bytes_of(case);
            let mut o = serde_json::Map::new();
            let u = UnverifiedBiscuit::from(base.to_vec().unwrap()).unwrap();
            let r = u.append_third_party(&contents);
            o.insert("uappend".into(), json!(ok(&r)));
            if let Ok(u2) = r {
                o.insert("usweep".into(), sweep_unverified(&u2, keys));
            }
            Value::Object(o)
        }
        "snapshot" => {
            let bytes = bytes_of(case);
            let mut o = serde_json::Map::new();
            match Authorizer::from_raw_snapshot(&bytes) {
                Ok(a) => {
                    o.insert("authorizer".into(), sweep_authorizer(a));
                }
                Err(_) => {
                    o.insert("authorizer".into(), json!("err"));
                }
            }
            match AuthorizerBuilder::from_raw_snapshot(&bytes) {
                Ok(b) => {
                    o.insert("builder".into(), json!("ok"));
                    o.insert("builder_dump".into(), json!(b.dump_code().len()));
                    o.insert("builder_snapshot".into(), json!(ok(&b.to_raw_snapshot())));
                    match b.build_unauthenticated() {
                        Ok(a) => {
                            o.insert("built".into(), sweep_authorizer(a));
                        }
                        Err(_) => {
                            o.insert("built".into(), json!("err"));
                        }
                    }
                }
                Err(_) => {
                    o.insert("builder".into(), json!("err"));
                }
            }
            o.insert("base64".into(), json!(ok(&Authorizer::from_base64_snapshot(&base64::encode_config(&bytes, base64::URL_SAFE)))));
            Value::Object(o)
        }
        "symprobe" => {
            // symbol lookups on a table of the given size, for ids in and out of every range
            use biscuit_auth::datalog::{SymbolTable, TemporarySymbolTable};
            let mut t = SymbolTable::new();
            for s in case["table"].as_array().unwrap() {
                t.insert(s.as_str().unwrap());
            }
            let mut tmp = TemporarySymbolTable::new(&t);
            let extra: Vec<u64> = case["extra"].as_array().unwrap().iter().map(|s| tmp.insert(s.as_str().unwrap())).collect();
            let ids: Vec<u64> = case["ids"].as_array().unwrap().iter().map(|i| i.as_u64().unwrap()).collect();
            json!({
                "get": ids.iter().map(|i| t.get_symbol(*i).map(|s| s.to_string())).collect::<Vec<_>>(),
                "print": ids.iter().map(|i| t.print_symbol(*i).ok()).collect::<Vec<_>>(),
                "print_default": ids.iter().map(|i| t.print_symbol_default(*i)).collect::<Vec<_>>(),
                "tmp_get": ids.iter().map(|i| tmp.get_symbol(*i).map(|s| s.to_string())).collect::<Vec<_>>(),
                "extra_ids": extra,
            })
        }
        "source" => {
            let text = case["text"].as_str().unwrap();
            let mut o = serde_json::Map::new();
            let which = case["which"].as_str().unwrap();
            let r = match which {
                "block" => BlockBuilder::new().code(text).map(|b| b.to_string().len()).map_err(|_| ()),
                "authorizer" => AuthorizerBuilder::new().code(text).map(|b| b.dump_code().len()).map_err(|_| ()),
                "fact" => Fact::try_from(text).map(|f| f.to_string().len()).map_err(|_| ()),
                "rule" => Rule::try_from(text).map(|f| f.to_string().len()).map_err(|_| ()),
                "check" => Check::try_from(text).map(|f| f.to_string().len()).map_err(|_| ()),
                _ => Policy::try_from(text).map(|f| f.to_string().len()).map_err(|_| ()),
            };
            o.insert("r".into(), json!(ok(&r)));
            // a single item that was accepted is added to a builder and converted (token or authorizer built): no step may panic
            match which {
                "fact" => {
                    if let Ok(f) = Fact::try_from(text) {
                        if let Ok(bb) = BlockBuilder::new().fact(f) {
                            o.insert("item_built".into(), json!(ok(&BiscuitBuilder::new().merge(bb).build(&keys.root))));
                        }
                    }
                }
                "rule" => {
                    if let Ok(x) = Rule::try_from(text) {
                        if let Ok(bb) = BlockBuilder::new().rule(x) {
                            o.insert("item_built".into(), json!(ok(&BiscuitBuilder::new().merge(bb).build(&keys.root))));
                        }
                    }
                }
                "check" => {
                    if let Ok(x) = Check::try_from(text) {
                        if let Ok(bb) = BlockBuilder::new().check(x) {
                            o.insert("item_built".into(), json!(ok(&BiscuitBuilder::new().merge(bb).build(&keys.root))));
                        }
                    }
                }
                "policy" => {
                    if let Ok(x) = Policy::try_from(text) {
                        if let Ok(ab) = AuthorizerBuilder::new().policy(x) {
                            o.insert("item_built".into(), json!(ok(&ab.limits(limits()).build_unauthenticated())));
                        }
                    }
                }
                _ => {}
            }
            if which == "block" {
                if let Ok(bb) = BlockBuilder::new().code(text) {
                    let t = BiscuitBuilder::new().merge(bb).build(&keys.root);
                    o.insert("build".into(), json!(ok(&t)));
                    if let Ok(t) = t {
                        o.insert("sweep".into(), sweep_token(&t, keys));
                    }
                }
            }
            if which == "authorizer" {
                if let Ok(ab) = AuthorizerBuilder::new().code(text) {
                    match ab.limits(limits()).build_unauthenticated() {
                        Ok(a) => {
                            o.insert("built".into(), sweep_authorizer(a));
                        }
                        Err(_) => {
                            o.insert("built".into(), json!("err"));
                        }
                    }
                }
            }
            Value::Object(o)
        }
        _ => {
            // one entry point on arbitrary bytes / text
            let bytes = bytes_of(case);
            let text = case["text"].as_str().map(|s| s.to_string()).unwrap_or_else(|| String::from_utf8_lossy(&bytes).to_string());
            let r: &'static str = match case["entry"].as_str().unwrap() {
                "Biscuit::from" => ok(&Biscuit::from(&bytes, keys.root.public())),
                "Biscuit::from_base64" => ok(&Biscuit::from_base64(&text, keys.root.public())),
                "Biscuit::unsafe_deprecated_deserialize" => ok(&Biscuit::unsafe_deprecated_deserialize(&bytes, keys.root.public())),
                "UnverifiedBiscuit::from" => ok(&UnverifiedBiscuit::from(&bytes)),
                "UnverifiedBiscuit::from_base64" => ok(&UnverifiedBiscuit::from_base64(&text)),
                "ThirdPartyRequest::deserialize" => match ThirdPartyRequest::deserialize(&bytes) {
                    Ok(req) => {
                        let _ = req.create_block(&keys.ext[0].private(), BlockBuilder::new().code("tp(1);").unwrap());
                        "ok"
                    }
                    Err(_) => "err",
                },
                "ThirdPartyRequest::deserialize_base64" => ok(&ThirdPartyRequest::deserialize_base64(&text)),
                "UnverifiedBiscuit::append_third_party" => {
                    let u = UnverifiedBiscuit::from(hex::decode(case["base"].as_str().unwrap()).unwrap()).unwrap();
                    let _ = u.append_third_party_base64(&text);
                    ok(&u.append_third_party(&bytes))
                }
                "Authorizer::from_raw_snapshot" => ok(&Authorizer::from_raw_snapshot(&bytes)),
                "Authorizer::from_base64_snapshot" => ok(&Authorizer::from_base64_snapshot(&text)),
                "AuthorizerBuilder::from_raw_snapshot" => ok(&AuthorizerBuilder::from_raw_snapshot(&bytes)),
                "Authorizer::from" => ok(&Authorizer::from(&bytes)),
                "PublicKey::from_str" => ok(&text.parse::<PublicKey>()),
                "PrivateKey::from_str" => ok(&text.parse::<PrivateKey>()),
                "PublicKey::from_bytes" => {
                    let _ = PublicKey::from_bytes(&bytes, Algorithm::Secp256r1);
                    ok(&PublicKey::from_bytes(&bytes, Algorithm::Ed25519))
                }
                "PrivateKey::from_bytes" => {
                    let _ = PrivateKey::from_bytes(&bytes, Algorithm::Secp256r1);
                    ok(&PrivateKey::from_bytes(&bytes, Algorithm::Ed25519))
                }
                "PublicKey::from_pem" => ok(&PublicKey::from_pem(&text)),
                "PrivateKey::from_pem" => ok(&PrivateKey::from_pem(&text)),
                "PublicKey::from_der" => ok(&PublicKey::from_der(&bytes)),
                "PrivateKey::from_der" => ok(&PrivateKey::from_der(&bytes)),
                "KeyPair::from_private_key_pem" => ok(&KeyPair::from_private_key_pem(&text)),
                "KeyPair::from_private_key_der" => ok(&KeyPair::from_private_key_der(&bytes)),
                other => panic!("unknown entry {other}"),
            };
            json!({"r": r})
        }
    }));
    match r {
        Ok(v) => v,
        Err(e) => json!({"panic": panic_msg(e)}),
    }
}

const ENTRIES: [&str; 26] = [
    "Biscuit::from", "Biscuit::from_base64", "Biscuit::unsafe_deprecated_deserialize", "UnverifiedBiscuit::from", "UnverifiedBiscuit::from_base64",
    "ThirdPartyRequest::deserialize", "ThirdPartyRequest::deserialize_base64", "UnverifiedBiscuit::append_third_party", "UnverifiedBiscuit::append_third_party",
    "Authorizer::from_raw_snapshot", "Authorizer::from_base64_snapshot", "AuthorizerBuilder::from_raw_snapshot", "Authorizer::from", "Authorizer::from",
    "PublicKey::from_str", "PrivateKey::from_str", "PublicKey::from_bytes", "PrivateKey::from_bytes", "PublicKey::from_pem", "PrivateKey::from_pem",
    "PublicKey::from_der", "PrivateKey::from_der", "KeyPair::from_private_key_pem", "KeyPair::from_private_key_der", "Biscuit::from", "UnverifiedBiscuit::from",
];

fn damage(rng: &mut StdRng, b: &[u8]) -> Vec<u8> {
    let mut v = b.to_vec();
    if v.is_empty() {
        return vec![rng.gen()];
    }
    for _ in 0..rng.gen_range(1..4) {
        if v.is_empty() {
            v.push(rng.gen());
            continue;
        }
        match rng.gen_range(0..6) {
            0 => {
                let n = rng.gen_range(0..v.len());
                v.truncate(n);
            }
            1 => v.push(rng.gen()),
            2 | 3 => {
                if !v.is_empty() {
                    let i = rng.gen_range(0..v.len());
                    v[i] ^= 1 << rng.gen_range(0..8);
                }
            }
            4 => {
                if !v.is_empty() {
                    let i = rng.gen_range(0..v.len());
                    v[i] = *pick(rng, &[0u8, 0x7f, 0x80, 0xff]);
                }
            }
            _ => {
                if v.len() > 2 {
                    let i = rng.gen_range(0..v.len() - 1);
                    let j = rng.gen_range(i..v.len());
                    v.drain(i..j);
                }
            }
        }
    }
    v
}

fn gen_cases(opts: &Opts, keys: &Keys) -> Vec<Value> {
    let mut cases = read_cases("corpus/untrusted.jsonl");
    let n = if opts.n > 0 { opts.n } else if opts.thorough { 12_000 } else { 900 };
    // material to damage
    let mut mrng = case_rng(opts.seed, 9, 0);
    let base = BiscuitBuilder::new().code("right(\"file1\", \"read\"); check if right($f, $r), $r.length() > 0;").unwrap().build_with_rng(&keys.root, Default::default(), &mut mrng).unwrap();
    let base2 = base.append(BlockBuilder::new().code("check if time($t), $t < 2030-01-01T00:00:00Z;").unwrap()).unwrap();
    let tok = base2.to_vec().unwrap();
    // a validly signed token whose facts hold the ends of the ranges of dates and integers
    {
        use biscuit_auth::builder::Term;
        let mut b = BiscuitBuilder::new();
        for t in [Term::Date(u64::MAX), Term::Date(0), Term::Date(u64::MAX / 2), Term::Integer(i64::MIN), Term::Integer(i64::MAX)] {
            let name = if matches!(t, Term::Date(_)) { "time" } else { "num" };
            b = b.fact(Fact::new(name.to_string(), vec![t])).unwrap();
        }
        let t = b.build_with_rng(&keys.root, Default::default(), &mut mrng).unwrap();
        cases.push(json!({"op": "untrusted", "kind": "token", "hex": hex::encode(t.to_vec().unwrap()), "nblocks": 1, "what": ["facts at the ends of the ranges"]}));
    }
    let req = base2.third_party_request().unwrap();
    let req_bytes = req.serialize().unwrap();
    let tpb = req.create_block(&keys.ext[0].private(), BlockBuilder::new().code("tp(1);").unwrap()).unwrap().serialize().unwrap();
    let snap = {
        let mut a = AuthorizerBuilder::new().code("time(2020-01-01T00:00:00Z); allow if right($f, $r);").unwrap().build(&base2).unwrap();
        let _ = a.authorize();
        a.to_raw_snapshot().unwrap()
    };
    let pols = AuthorizerBuilder::new().code("a(1); allow if a($x);").unwrap().build_unauthenticated().unwrap().save().unwrap().serialize().unwrap();
    let pk = keys.ext[0].public();
    let sk = keys.ext[0].private();
    for i in 0..n {
        let mut rng = case_rng(opts.seed, 9, i as u64 + 1);
        if i % 40 == 39 {
            let k = rng.gen_range(0..4);
            let table: Vec<String> = (0..k).map(|j| format!("s{j}")).collect();
            let extra: Vec<String> = (0..rng.gen_range(0..3)).map(|j| format!("t{j}")).collect();
            let mut ids: Vec<u64> = vec![0, 27, 28, 29, 500, 1023, 1024, 1024 + k, 1024 + k + 1, 1024 + k + 2, 1024 + k + 3, u32::MAX as u64, u64::MAX];
            ids.push(rng.gen_range(0..1100));
            cases.push(json!({"op": "untrusted", "kind": "symprobe", "table": table, "extra": extra, "ids": ids}));
            continue;
        }
        match i % 9 {
            0 | 1 => {
                let entry = *pick(&mut rng, &ENTRIES);
                let material: Vec<u8> = match entry {
                    e if e.contains("Biscuit::") => if e.contains("base64") { base2.to_base64().unwrap().into_bytes() } else { tok.clone() },
                    e if e.contains("ThirdPartyRequest") => if e.contains("base64") { base64::encode_config(&req_bytes, base64::URL_SAFE).into_bytes() } else { req_bytes.clone() },
                    "UnverifiedBiscuit::append_third_party" => tpb.clone(),
                    e if e.contains("snapshot") => if e.contains("base64") { base64::encode_config(&snap, base64::URL_SAFE).into_bytes() } else { snap.clone() },
                    "Authorizer::from" => pols.clone(),
                    "PublicKey::from_str" => pk.to_string().into_bytes(),
                    "PrivateKey::from_str" => sk.to_prefixed_string().into_bytes(),
                    "PublicKey::from_bytes" => pk.to_bytes(),
                    "PrivateKey::from_bytes" => sk.to_bytes().to_vec(),
                    "PublicKey::from_pem" => pk.to_pem().unwrap().into_bytes(),
                    "PublicKey::from_der" => pk.to_der().unwrap(),
                    e if e.contains("pem") => sk.to_pem().unwrap().as_bytes().to_vec(),
                    _ => sk.to_der().unwrap().to_vec(),
                };
                let input = match rng.gen_range(0..5) {
                    0 => (0..rng.gen_range(0..200)).map(|_| rng.gen()).collect(),
                    1 => material.clone(),
                    _ => damage(&mut rng, &material),
                };
                let mut c = json!({"op": "untrusted", "kind": "entry", "entry": entry, "hex": hex::encode(input)});
                if entry == "UnverifiedBiscuit::append_third_party" {
                    c["base"] = json!(hex::encode(&tok));
                }
                cases.push(c);
            }
            2 | 3 | 4 | 5 => {
                // adversarial signed token: 1-3 blocks, one or two of them damaged
                let nb = rng.gen_range(1..4);
                let mut blocks = vec![];
                let mut what = vec![];
                let victim = rng.gen_range(0..nb);
                for j in 0..nb {
                    let mut b = legit_block(&mut rng, keys);
                    if j == victim || rng.gen_range(0..4) == 0 {
                        for _ in 0..rng.gen_range(1..3) {
                            what.push(format!("block {j}: {}", mutate_block(&mut rng, &mut b)));
                        }
                    }
                    let ext = if j > 0 && rng.gen_range(0..3) == 0 { Some(rng.gen_range(0..3)) } else { None };
                    blocks.push((b.encode_to_vec(), ext));
                }
                let bytes = craft_token(&keys.root, &blocks, keys, &mut rng);
                cases.push(json!({"op": "untrusted", "kind": "token", "hex": hex::encode(bytes), "nblocks": nb, "what": what}));
            }
            6 => {
                // adversarial third-party block contents, correctly signed by the external key
                let mut b = legit_block(&mut rng, keys);
                let what = mutate_block(&mut rng, &mut b);
                let data = b.encode_to_vec();
                let w = decode(&tok).unwrap();
                let prev_sig = w.blocks.last().unwrap().signature.clone();
                let s = keys.ext[0].sign(&external_payload_v1(&data, &prev_sig)).unwrap();
                let contents = schema::ThirdPartyBlockContents { payload: data, external_signature: schema::ExternalSignature { signature: s.to_bytes().to_vec(), public_key: keys.ext[0].public().to_proto() } };
                cases.push(json!({"op": "untrusted", "kind": "third_party", "base": hex::encode(&tok), "hex": hex::encode(contents.encode_to_vec()), "what": what}));
            }
            7 => {
                // adversarial snapshot
                let mut s = schema::AuthorizerSnapshot::decode(&snap[..]).unwrap();
                let what = match rng.gen_range(0..14) {
                    0 => {
                        s.world.iterations = *pick(&mut rng, &[99u64, 100, 101, u64::MAX]);
                        "iterations"
                    }
                    1 => {
                        // more than the time limit of the snapshot: by one, by far, by everything
                        s.execution_time = *pick(&mut rng, &[u64::MAX, s.limits.max_time.saturating_add(1), s.limits.max_time.saturating_mul(3), s.limits.max_time]);
                        "execution_time"
                    }
                    2 => {
                        s.limits = schema::RunLimits { max_facts: 0, max_iterations: 0, max_time: 0 };
                        "zero limits"
                    }
                    3 => {
                        let b = schema::Block { symbols: s.world.symbols.clone(), ..Default::default() };
                        let id = bad_id(&mut rng, &b);
                        s.world.generated_facts.push(schema::GeneratedFacts { origins: vec![schema::Origin { content: Some(schema::origin::Content::Origin(0)) }], facts: vec![schema::FactV2 { predicate: schema::PredicateV2 { name: id, terms: vec![term(schema::term_v2::Content::String(id))] } }] });
                        "generated fact with unknown symbol"
                    }
                    4 => {
                        s.world.generated_facts.push(schema::GeneratedFacts { origins: vec![schema::Origin { content: None }, schema::Origin { content: Some(schema::origin::Content::Origin(u32::MAX)) }], facts: vec![] });
                        "odd origins"
                    }
                    5 => {
                        s.world.version = *pick(&mut rng, &[Some(0u32), Some(2), Some(99), None]);
                        "version"
                    }
                    6 => {
                        let mut b = schema::Block { symbols: s.world.symbols.clone(), ..Default::default() };
                        mutate_block(&mut rng, &mut b);
                        s.world.authorizer_block.facts_v2 = b.facts_v2;
                        s.world.authorizer_block.rules_v2 = b.rules_v2;
                        s.world.authorizer_block.checks_v2 = b.checks_v2;
                        s.world.authorizer_block.scope = b.scope;
                        "adversarial authorizer block"
                    }
                    7 => {
                        let mut b = schema::Block { symbols: s.world.symbols.clone(), ..Default::default() };
                        mutate_block(&mut rng, &mut b);
                        if let Some(blk) = s.world.blocks.last_mut() {
                            blk.facts_v2 = b.facts_v2;
                            blk.rules_v2 = b.rules_v2;
                            blk.checks_v2 = b.checks_v2;
                            blk.scope = b.scope;
                            blk.version = b.version;
                        }
                        "adversarial token block"
                    }
                    8 => {
                        let b = schema::Block { symbols: s.world.symbols.clone(), ..Default::default() };
                        s.world.authorizer_policies.push(schema::Policy { queries: vec![schema::RuleV2 { head: schema::PredicateV2 { name: bad_id(&mut rng, &b), terms: vec![] }, body: vec![], expressions: vec![schema::ExpressionV2 { ops: bad_ops(&mut rng, &b) }], scope: vec![] }], kind: *pick(&mut rng, &[0i32, 1, 7]) });
                        "adversarial policy"
                    }
                    9 => {
                        s.world.symbols.push("read".into());
                        s.world.symbols.push(String::new());
                        "symbols"
                    }
                    10 => {
                        s.world.public_keys.push(schema::PublicKey { algorithm: 3, key: vec![1, 2, 3] });
                        "public keys"
                    }
                    11 | 12 => {
                        // `right` is default symbol 4: the token states right("file1", "read"), the authorizer time(..)
                        let var = |i: u32| term(schema::term_v2::Content::Variable(i));
                        let body = schema::PredicateV2 { name: 4, terms: vec![var(1), var(2)] };
                        let head = schema::PredicateV2 { name: *pick(&mut rng, &[4u64, 2, 1024]), terms: vec![var(*pick(&mut rng, &[77u32, 3, 1])), var(9)] };
                        let rule = schema::RuleV2 { head, body: vec![body], expressions: vec![], scope: vec![] };
                        if rng.gen() {
                            s.world.authorizer_block.rules_v2.push(rule);
                        } else {
                            s.world.authorizer_policies.push(schema::Policy { queries: vec![rule], kind: 0 });
                        }
                        "rule whose head variable is bound by no body predicate"
                    }
                    _ => {
                        s.world.blocks.clear();
                        "no blocks"
                    }
                };
                // a snapshot taken after a completed run is not evaluated again: half of the time present it as one taken before
                // (no execution time, no iterations), so that what it carries is actually run
                let what = if what != "execution_time" && what != "iterations" && rng.gen() {
                    s.execution_time = 0;
                    s.world.iterations = 0;
                    format!("{what}, not yet run")
                } else {
                    what.to_string()
                };
                cases.push(json!({"op": "untrusted", "kind": "snapshot", "hex": hex::encode(s.encode_to_vec()), "what": what}));
            }
            _ => {
                let which = *pick(&mut rng, &["block", "authorizer", "fact", "rule", "check", "policy"]);
                let depth = *pick(&mut rng, &[10usize, 60, 200, 3000, 40000]);
                let core = match rng.gen_range(0..17) {
                    0 => "check if f($x) trusting ed25519/00".to_string(),
                    1 => "check if f($x) trusting secp256r1/0102".to_string(),
                    2 => format!("check if f($x) trusting ed25519/{}", "ff".repeat(32)),
                    3 => format!("check if {}1{}", "(".repeat(depth), ")".repeat(depth)),
                    4 => format!("f({}1{})", "[".repeat(depth), "]".repeat(depth)),
                    5 => format!("check if {}true", "!".repeat(depth)),
                    6 => format!("check if f($x), $x.all($a -> {} true {})", "$x.any($b -> ".repeat(depth.min(60)), ")".repeat(depth.min(60))),
                    7 => "check if {p}.contains(1)".to_string(),
                    8 => "h({p}) <- f({{k}: 1}) trusting {s}".to_string(),
                    9 => "check if 9223372036854775808 > 1".to_string(),
                    12 => "check if f(99999-01-01T00:00:00Z)".to_string(),
                    // a parameter nobody binds, at closure depth 0, 1, 2 and 3: the source must be refused, not accepted and then
                    // fail in conversion
                    16 => pick(&mut rng, &[
                        "check if [1, 2, 3].any($x -> $x == 0 || $x == {p})", "check if false || (true && 1 == {p})", "check if f($y), [1].all($x -> $x == {p})",
                        "check if true && [1, 2].any($x -> [$x].all($z -> $z == {p} || false))", "check if f({p})", "check if false || {p}",
                    ]).to_string(),
                    // statements that do not parse and hold characters of two, three and four bytes: error recovery
                    // works with positions in the text
                    13 => format!("right(\"file1\") {}; check if true", pick(&mut rng, &["\u{20ac}", "\u{e9}\u{e9}", "\u{65e5}\u{672c}", "\u{e9}\u{20ac}", "\u{10348}", "\u{e9}"])),
                    14 => format!("f(1) {a}; g(\"{a}\") {a}{a}; check if true {a}; h({a}); check if \"{a}\".length() == 1", a = pick(&mut rng, &["\u{20ac}", "\u{e9}", "\u{10348}"])),
                    15 => {
                        let base = "check if right($f, \"read\"), $f.starts_with(\"/a\"); f(1) x; g(2)";
                        let mut cs: Vec<char> = base.chars().collect();
                        for _ in 0..rng.gen_range(1..4) {
                            let at = rng.gen_range(0..=cs.len());
                            cs.insert(at, *pick(&mut rng, &['\u{e9}', '\u{20ac}', '\u{10348}', '\u{a0}']));
                        }
                        cs.into_iter().collect()
                    }
                    10 => pick(&mut rng, &[
                        "check if -9223372036854775808 / -1 === 0", "check if 9223372036854775807 + 1 > 0", "check if -9223372036854775808 * -1 > 0",
                        "check if -9223372036854775808 - 1 < 0", "check if 1 / 0 === 1", "check if \"a\".matches(\"(((\")", "check if \"a\".matches(\"(a*)*b\")",
                        "check if [1, 2].get(9223372036854775807) === null", "check if {\"a\": 1}.get(2) === null", "check if 2000-01-01T00:00:00Z + 1 > 0",
                    ]).to_string(),
                    _ => String::from_utf8_lossy(&damage(&mut rng, b"check if right($f, \"read\"), [1, 2].contains($f) || {\"a\": 1}.get(\"a\") == 1 trusting previous")).to_string(),
                };
                let text = match which {
                    "block" | "authorizer" => format!("{core};\n{}", if which == "authorizer" { "allow if true;" } else { "" }),
                    "fact" if !core.starts_with("f(") => "f({p}, [{q}], hex:zz)".to_string(),
                    "policy" => core.replacen("check if", "allow if", 1),
                    "rule" if !core.contains("<-") => core.replacen("check if", "h(1) <-", 1),
                    _ => core,
                };
                cases.push(json!({"op": "untrusted", "kind": "source", "which": which, "text": text}));
            }
        }
    }
    cases
}

pub fn child(opts: &Opts) {
    // runs the cases of --replay from index --n on, one flushed outcome line per case
    let mut krng = case_rng(7, 7, 7);
    let keys = Keys::new(&mut krng);
    let cases = read_cases(opts.replay.as_ref().unwrap());
    child_loop(opts, "untrusted", &cases, |case| run_case(case, &keys));
}

pub fn run(opts: &Opts) {
    let mut krng = case_rng(7, 7, 7);
    let keys = Keys::new(&mut krng);
    let cases = match &opts.replay {
        Some(p) => read_cases(p),
        None => gen_cases(opts, &keys),
    };
    let outs = run_in_children(opts, "untrusted", &cases);
    let mut sink = Sink::new(opts, "untrusted");
    let mut stats: BTreeMap<String, u64> = BTreeMap::new();
    for (c, o) in cases.iter().zip(outs.iter()) {
        let k = if o.get("panic").is_some() {
            "PANIC".to_string()
        } else if o.get("abort").is_some() {
            "ABORT".to_string()
        } else {
            match c["kind"].as_str().unwrap() {
                "token" => format!("token/{}", o["from"].as_str().unwrap_or("?")),
                "entry" => format!("entry/{}", o["r"].as_str().unwrap_or("?")),
                k => k.to_string(),
            }
        };
        *stats.entry(k).or_insert(0) += 1;
        sink.put(c, o);
    }
    let total = sink.count;
    sink.finish();
    let st = json!({"stream": "untrusted", "cases": total, "histogram": stats});
    std::fs::write(format!("{}/untrusted.stats.json", opts.out), st.to_string()).unwrap();
    let _ = RunLimits::default();
}
