//! stream `macros`: compile-time Datalog macros equal runtime parsing (C18)
//!
//! Generates a crate whose `main` holds one function per case. A case is a Datalog source (an
//! item with `{parameters}` in every kind of position, printed by the library), a value for
//! every parameter (as a Rust expression for the macro, as a term for the runtime path) and a
//! macro kind. The function builds the item twice — with the macro (`fact!`, `rule!`, `check!`,
//! `policy!`, `block!`, `biscuit!`, `authorizer!` and the `_merge` forms) and by parsing the same
//! source at run time and binding the same parameters — and prints both results: Display,
//! structural equality, token bytes under fixed keys and a fixed generator, authorizer snapshot.
//! The crate is built offline against /repo and run; its output lines are the outcomes.
use crate::common::*;
use crate::prog::Keys;
use crate::s_params::{amb_singleton, collect_params, gen_value, inject};
use crate::s_print::*;
use biscuit_auth::builder::{AuthorizerBuilder, BlockBuilder, Check, Fact, Policy, Rule, Term};
use rand::rngs::StdRng;
use rand::Rng;
use serde_json::{json, Value};
use std::collections::BTreeMap;
use std::convert::TryFrom;
use std::fmt::Write as _;

fn source_of(kind: &str, item: &Value) -> Option<String> {
    let r = std::panic::catch_unwind(|| match kind {
        "fact" => {
            let p = pred_b(item);
            Fact::new(p.name, p.terms).to_string()
        }
        "rule" => rule_b(item).to_string(),
        "check" => check_b(item).to_string(),
        "policy" => policy_b(item).to_string(),
        "block" | "biscuit" => {
            let mut bb = BlockBuilder::new();
            for s in item["scopes"].as_array().unwrap() {
                bb = bb.scope(scope_b(s));
            }
            // items are pushed as they are: parameters stay unbound in the printed source
            for f in item["facts"].as_array().unwrap() {
                let p = pred_b(f);
                bb.facts.push(Fact::new(p.name, p.terms));
            }
            for r in item["rules"].as_array().unwrap() {
                bb.rules.push(rule_b(r));
            }
            for c in item["checks"].as_array().unwrap() {
                bb.checks.push(check_b(c));
            }
            bb.to_string()
        }
        _ => {
            let mut out = String::new();
            for f in item["facts"].as_array().unwrap() {
                let p = pred_b(f);
                let _ = writeln!(out, "{};", Fact::new(p.name, p.terms));
            }
            for r in item["rules"].as_array().unwrap() {
                let _ = writeln!(out, "{};", rule_b(r));
            }
            for c in item["checks"].as_array().unwrap() {
                let _ = writeln!(out, "{};", check_b(c));
            }
            for p in item["policies"].as_array().unwrap() {
                let _ = writeln!(out, "{};", policy_b(p));
            }
            out
        }
    });
    r.ok()
}

/// the runtime parser accepts the source (the macro runs the same parser at compile time: a
/// source it refuses would stop the whole crate from building)
fn parses(kind: &str, src: &str) -> bool {
    std::panic::catch_unwind(|| match kind {
        "fact" => Fact::try_from(src).is_ok(),
        "rule" => Rule::try_from(src).is_ok(),
        "check" => Check::try_from(src).is_ok(),
        "policy" => Policy::try_from(src).is_ok(),
        "block" | "biscuit" => biscuit_parser::parser::parse_block_source(src).is_ok(),
        _ => biscuit_parser::parser::parse_source(src).is_ok(),
    })
    .unwrap_or(false)
}

/// the parameter names used as map keys
fn key_positions(v: &Value, out: &mut Vec<String>) {
    match v {
        Value::Object(o) => {
            if let Some(Value::Array(entries)) = o.get("map") {
                for kv in entries {
                    if let Some(n) = kv[0].get("param").and_then(|n| n.as_str()) {
                        out.push(n.to_string());
                    }
                }
            }
            for x in o.values() {
                key_positions(x, out);
            }
        }
        Value::Array(a) => {
            for x in a {
                key_positions(x, out);
            }
        }
        _ => {}
    }
}

fn rust_str(s: &str) -> String {
    format!("{:?}", s)
}

/// a Rust expression of one of the types the macros accept for this value
fn rust_expr(rng: &mut StdRng, t: &Term) -> String {
    let generic = format!("t({})", rust_str(&term_j(t).to_string()));
    if rng.gen_range(0..3) == 0 {
        return generic;
    }
    match t {
        Term::Integer(i) if *i == i64::MIN => "i64::MIN".to_string(),
        Term::Integer(i) => format!("({i}i64)"),
        Term::Str(s) => {
            if rng.gen() { rust_str(s) } else { format!("String::from({})", rust_str(s)) }
        }
        Term::Bool(b) => format!("{b}"),
        Term::Bytes(b) => format!("vec![{}]", b.iter().map(|x| format!("{x}u8")).collect::<Vec<_>>().join(", ")),
        // a time of day with a fraction of a second: the date is the whole seconds, on every path
        Term::Date(d) if *d < 10_000_000_000_000 => {
            let ms = *pick(rng, &[0u64, 0, 499, 500, 600, 999]);
            format!("(std::time::UNIX_EPOCH + std::time::Duration::from_millis({}u64))", d * 1000 + ms)
        }
        Term::Date(d) => format!("(std::time::UNIX_EPOCH + std::time::Duration::from_secs({d}))"),
        Term::Set(s) => format!("[{}].into_iter().collect::<std::collections::BTreeSet<Term>>()", s.iter().map(|x| format!("t({})", rust_str(&term_j(x).to_string()))).collect::<Vec<_>>().join(", ")),
        _ => generic,
    }
}

const PRELUDE: &str = r##"// generated by `vh macros`: do not edit
#![allow(unused_variables, unused_mut, unused_imports, clippy::all)]
use biscuit_auth::builder::*;
use biscuit_auth::datalog::SymbolTable;
use biscuit_auth::macros::*;
use biscuit_auth::{KeyPair, PrivateKey, PublicKey};
use rand::SeedableRng;
use serde_json::{json, Value};
use std::collections::{BTreeMap, BTreeSet, HashMap};

fn key_b(v: &Value) -> MapKey {
    if let Some(x) = v.get("int") {
        MapKey::Integer(x.as_i64().unwrap())
    } else if let Some(x) = v.get("str") {
        MapKey::Str(x.as_str().unwrap().to_string())
    } else {
        MapKey::Parameter(v["param"].as_str().unwrap().to_string())
    }
}

fn term_b(v: &Value) -> Term {
    if let Some(x) = v.get("var") {
        Term::Variable(x.as_str().unwrap().to_string())
    } else if let Some(x) = v.get("int") {
        Term::Integer(x.as_i64().unwrap())
    } else if let Some(x) = v.get("str") {
        Term::Str(x.as_str().unwrap().to_string())
    } else if let Some(x) = v.get("date") {
        Term::Date(x.as_u64().unwrap())
    } else if let Some(x) = v.get("bytes") {
        Term::Bytes(hex::decode(x.as_str().unwrap()).unwrap())
    } else if let Some(x) = v.get("bool") {
        Term::Bool(x.as_bool().unwrap())
    } else if v.get("null").is_some() {
        Term::Null
    } else if let Some(x) = v.get("set") {
        Term::Set(x.as_array().unwrap().iter().map(term_b).collect::<BTreeSet<_>>())
    } else if let Some(x) = v.get("arr") {
        Term::Array(x.as_array().unwrap().iter().map(term_b).collect())
    } else if let Some(x) = v.get("map") {
        Term::Map(x.as_array().unwrap().iter().map(|kv| (key_b(&kv[0]), term_b(&kv[1]))).collect::<BTreeMap<_, _>>())
    } else {
        Term::Parameter(v["param"].as_str().unwrap().to_string())
    }
}

fn t(j: &str) -> Term {
    term_b(&serde_json::from_str(j).unwrap())
}

fn pk(s: &str) -> PublicKey {
    s.parse().unwrap()
}

fn root() -> KeyPair {
    KeyPair::from(&PrivateKey::from_bytes(&[7u8; 32], Algorithm::Ed25519).unwrap())
}

fn panic_msg(e: Box<dyn std::any::Any + Send>) -> String {
    if let Some(s) = e.downcast_ref::<&str>() {
        s.to_string()
    } else if let Some(s) = e.downcast_ref::<String>() {
        s.clone()
    } else {
        "panic".to_string()
    }
}

/// the token built from a block under a fixed root key and a fixed generator
fn block_bytes(bb: BlockBuilder) -> Value {
    let scopes = bb.scopes.clone();
    let mut b = BiscuitBuilder::new().merge(bb);
    for s in scopes {
        b = b.scope(s);
    }
    biscuit_bytes(b)
}

fn biscuit_bytes(b: BiscuitBuilder) -> Value {
    let mut rng = rand::rngs::StdRng::seed_from_u64(11);
    match b.build_with_rng(&root(), SymbolTable::default(), &mut rng) {
        Ok(t) => json!(hex::encode(t.to_vec().unwrap())),
        Err(e) => json!({"build_error": format!("{:?}", e)}),
    }
}

fn authorizer_repr(a: AuthorizerBuilder) -> Value {
    json!({"text": a.dump_code(), "bytes": a.to_raw_snapshot().map(hex::encode).map_err(|e| format!("{:?}", e)).unwrap_or_else(|e| e)})
}

fn conv_fact(m: &Fact) -> String {
    let mut s = SymbolTable::new();
    let d = m.convert(&mut s);
    format!("{:?} {:?}", d, s)
}

fn conv_rule(m: &Rule) -> String {
    let mut s = SymbolTable::new();
    let d = m.convert(&mut s);
    format!("{:?} {:?}", d, s)
}

fn conv_check(m: &Check) -> String {
    let mut s = SymbolTable::new();
    let d = m.convert(&mut s);
    format!("{:?} {:?}", d, s)
}

fn conv_policy(m: &Policy) -> String {
    let mut s = SymbolTable::new();
    let d: Vec<biscuit_auth::datalog::Rule> = m.queries.iter().map(|q| q.convert(&mut s)).collect();
    format!("{:?} {:?} {:?}", m.kind, d, s)
}

fn side(r: std::thread::Result<Result<Value, String>>) -> Value {
    match r {
        Ok(Ok(v)) => v,
        Ok(Err(e)) => json!({"err": e}),
        Err(e) => json!({"panic": panic_msg(e)}),
    }
}
"##;

fn gen_case(rng: &mut StdRng, keys: &Keys, index: usize) -> Option<(Value, String)> {
    let kind = *pick(rng, &["fact", "rule", "check", "policy", "block", "block", "biscuit", "authorizer", "authorizer"]);
    let merge = matches!(kind, "block" | "biscuit" | "authorizer") && rng.gen_range(0..3) == 0;
    let gen_kind = if kind == "biscuit" { "block" } else { kind };
    let mut item = gen_item(rng, gen_kind, keys, false);
    inject(&mut item, rng, false);
    if amb_singleton(&item) {
        return None;
    }
    if gen_kind == "block" && rng.gen_range(0..2) == 0 {
        // the block's own scopes: literal ones, a parameter of their own, the parameter before and after literals
        let key = json!({"key": keys.ext[rng.gen_range(0..3)].public().to_string()});
        let sc = match index % 4 {
            0 => vec![json!({"previous": true})],
            1 => vec![json!({"param": "bk"}), json!({"previous": true})],
            2 => vec![json!({"previous": true}), json!({"param": "bk"}), key],
            _ => vec![key, json!({"previous": true})],
        };
        item["scopes"] = Value::Array(sc);
    }
    if gen_kind == "block" && index % 8 == 5 {
        // a source that is its `trusting ...;` line and nothing else
        item["facts"] = json!([]);
        item["rules"] = json!([]);
        item["checks"] = json!([]);
        if item["scopes"].as_array().map(|a| a.is_empty()).unwrap_or(true) {
            item["scopes"] = json!([{"previous": true}]);
        }
    }
    let (mut tp, mut sp) = (vec![], vec![]);
    collect_params(&item, &mut tp, &mut sp, false);
    // one namespace for the macros: a name is either a term or a key
    if sp.iter().any(|n| tp.contains(n)) {
        return None;
    }
    let src = source_of(kind, &item)?;
    if !parses(kind, &src) {
        return None;
    }
    let mut key_names: Vec<String> = vec![];
    key_positions(&item, &mut key_names);
    let mut binds = vec![];
    for name in tp.iter() {
        let v = gen_value(rng, key_names.contains(name));
        // a map key takes an integer or a string (the known finding of C20 is not replayed here)
        let v = if key_names.contains(name) && !matches!(v, Term::Integer(_) | Term::Str(_)) { Term::Integer(3) } else { v };
        binds.push(json!({"name": name, "value": term_j(&v), "rust": rust_expr(rng, &v), "how": if rng.gen() { "explicit" } else { "scope" }}));
    }
    for name in sp.iter() {
        let k = keys.ext[rng.gen_range(0..3)].public().to_string();
        binds.push(json!({"name": name, "key": k, "rust": format!("pk({})", rust_str(&k)), "how": if rng.gen() { "explicit" } else { "scope" }}));
    }
    let mut case = json!({"op": "macros", "kind": kind, "merge": merge, "item": item, "source": src, "binds": binds});

    // ---- the function of this case
    let mut f = String::new();
    let lit = rust_str(&src);
    let ex: Vec<&Value> = binds.iter().filter(|b| b["how"] == "explicit").collect();
    // rotation: every explicit parameter is given the caller's variable that bears the NEXT parameter's name
    // (`low = high, high = low`): the macro must read the caller's variables, not its own earlier bindings
    let rotate = ex.len() >= 2 && rng.gen_range(0..3) == 0;
    let explicit: Vec<String> = if rotate {
        (0..ex.len()).map(|i| format!("{} = {}", ex[i]["name"].as_str().unwrap(), ex[(i + 1) % ex.len()]["name"].as_str().unwrap())).collect()
    } else {
        ex.iter().map(|b| format!("{} = {}", b["name"].as_str().unwrap(), b["rust"].as_str().unwrap())).collect()
    };
    let mut lets: String = binds.iter().filter(|b| b["how"] == "scope").map(|b| format!("        let {} = {};\n", b["name"].as_str().unwrap(), b["rust"].as_str().unwrap())).collect();
    if rotate {
        for i in 0..ex.len() {
            let _ = writeln!(lets, "        let {} = {};", ex[(i + 1) % ex.len()]["name"].as_str().unwrap(), ex[i]["rust"].as_str().unwrap());
        }
    }
    let args = if explicit.is_empty() { String::new() } else { format!(", {}", explicit.join(", ")) };
    let (mac, target_decl, target_arg) = match (kind, merge) {
        ("block", true) => ("block_merge", "        let base = BlockBuilder::new().code(\"base(1); check if base($x);\").unwrap();\n", "base, "),
        ("biscuit", true) => ("biscuit_merge", "        let base = BiscuitBuilder::new().code(\"base(1); check if base($x);\").unwrap();\n", "base, "),
        ("authorizer", true) => ("authorizer_merge", "        let base = AuthorizerBuilder::new().code(\"base(1); allow if base($x);\").unwrap();\n", "base, "),
        (k, _) => (k, "", ""),
    };
    let repr = match kind {
        "block" => "json!({\"text\": m.to_string(), \"bytes\": block_bytes(m)})",
        "biscuit" => "json!({\"text\": m.to_string(), \"bytes\": biscuit_bytes(m)})",
        "authorizer" => "authorizer_repr(m)",
        "fact" => "json!({\"text\": m.to_string(), \"converted\": conv_fact(&m)})",
        "rule" => "json!({\"text\": m.to_string(), \"converted\": conv_rule(&m)})",
        "check" => "json!({\"text\": m.to_string(), \"converted\": conv_check(&m)})",
        _ => "json!({\"text\": m.to_string(), \"converted\": conv_policy(&m)})",
    };
    case["rotated"] = json!(rotate);
    let _ = writeln!(f, "fn case_{index}() -> Value {{");
    let _ = writeln!(f, "    let src: &str = {lit};");
    let _ = writeln!(f, "    let mac = side(std::panic::catch_unwind(|| -> Result<Value, String> {{");
    f.push_str(target_decl);
    f.push_str(&lets);
    let _ = writeln!(f, "        let m = {mac}!({target_arg}{lit}{args});");
    let _ = writeln!(f, "        Ok({repr})");
    let _ = writeln!(f, "    }}));");
    // runtime side
    let _ = writeln!(f, "    let run = side(std::panic::catch_unwind(|| -> Result<Value, String> {{");
    f.push_str(target_decl);
    let _ = writeln!(f, "        let mut params: HashMap<String, Term> = HashMap::new();");
    let _ = writeln!(f, "        let mut scope_params: HashMap<String, PublicKey> = HashMap::new();");
    for b in &binds {
        let name = b["name"].as_str().unwrap();
        if let Some(v) = b.get("value") {
            let _ = writeln!(f, "        params.insert({}.to_string(), t({}));", rust_str(name), rust_str(&v.to_string()));
        } else {
            let _ = writeln!(f, "        scope_params.insert({}.to_string(), pk({}));", rust_str(name), rust_str(b["key"].as_str().unwrap()));
        }
    }
    let e = ".map_err(|e| format!(\"{:?}\", e))?";
    match kind {
        "fact" => {
            let _ = writeln!(f, "        let mut m = Fact::try_from(src){e};");
            let _ = writeln!(f, "        for (n, v) in &params {{ m.set(n, v.clone()){e}; }}");
        }
        "rule" | "check" | "policy" => {
            let ty = match kind {
                "rule" => "Rule",
                "check" => "Check",
                _ => "Policy",
            };
            let _ = writeln!(f, "        let mut m = {ty}::try_from(src){e};");
            let _ = writeln!(f, "        for (n, v) in &params {{ m.set(n, v.clone()){e}; }}");
            let _ = writeln!(f, "        for (n, v) in &scope_params {{ m.set_scope(n, *v){e}; }}");
        }
        "block" => {
            let _ = writeln!(f, "        let m = {}.code_with_params(src, params, scope_params){e};", if merge { "base" } else { "BlockBuilder::new()" });
        }
        "biscuit" => {
            let _ = writeln!(f, "        let m = {}.code_with_params(src, params, scope_params){e};", if merge { "base" } else { "BiscuitBuilder::new()" });
        }
        _ => {
            let _ = writeln!(f, "        let m = {}.code_with_params(src, params, scope_params){e};", if merge { "base" } else { "AuthorizerBuilder::new()" });
        }
    }
    let _ = writeln!(f, "        Ok({repr})");
    let _ = writeln!(f, "    }}));");
    let _ = writeln!(f, "    json!({{\"macro\": mac, \"runtime\": run}})");
    let _ = writeln!(f, "}}\n");
    Some((case, f))
}

pub fn run(opts: &Opts) {
    let mut sink = Sink::new(opts, "macros");
    let mut krng = case_rng(7, 7, 7);
    let keys = Keys::new(&mut krng);
    let mut cases: Vec<Value> = vec![];
    let mut code = String::from(PRELUDE);
    if let Some(path) = &opts.replay {
        // a replayed case is regenerated into a one-case crate from its stored source and bindings
        for (i, case) in read_cases(path).into_iter().enumerate() {
            if let Some(f) = case.get("function").and_then(|f| f.as_str()) {
                code.push_str(&f.replace("fn case_X()", &format!("fn case_{i}()")));
                cases.push(case);
            }
        }
    } else {
        let n = if opts.n > 0 { opts.n } else if opts.thorough { 700 } else { 140 };
        let mut i = 0u64;
        let corpus = read_cases("corpus/macros.jsonl");
        for case in corpus {
            if let Some(f) = case.get("function").and_then(|f| f.as_str()) {
                code.push_str(&f.replace("fn case_X()", &format!("fn case_{}()", cases.len())));
                cases.push(case);
            }
        }
        while cases.len() < n && i < 20 * n as u64 {
            let mut rng = case_rng(opts.seed, 18, i);
            i += 1;
            let index = cases.len();
            if let Some((mut case, f)) = gen_case(&mut rng, &keys, index) {
                // the function travels with the case so that a replay rebuilds exactly this code
                case["function"] = json!(f.replace(&format!("fn case_{index}()"), "fn case_X()"));
                code.push_str(&f);
                cases.push(case);
            }
        }
    }
    let _ = writeln!(code, "fn main() {{");
    let _ = writeln!(code, "    std::panic::set_hook(Box::new(|_| {{}}));");
    let _ = writeln!(code, "    let cases: Vec<fn() -> Value> = vec![{}];", (0..cases.len()).map(|i| format!("case_{i}")).collect::<Vec<_>>().join(", "));
    let _ = writeln!(code, "    for c in cases {{ println!(\"{{}}\", c()); }}");
    let _ = writeln!(code, "}}");

    // the crate lives beside the harness and shares its lock file; its target directory is kept
    let verif = std::env::current_dir().unwrap();
    let dir = verif.join("work").join("c18gen");
    std::fs::create_dir_all(dir.join("src")).unwrap();
    std::fs::create_dir_all(dir.join(".cargo")).unwrap();
    std::fs::write(dir.join("src/main.rs"), &code).unwrap();
    std::fs::write(
        dir.join("Cargo.toml"),
        "[package]\nname = \"c18gen\"\nversion = \"0.1.0\"\nedition = \"2021\"\n\n[workspace]\n\n[dependencies]\nbiscuit-auth = { path = \"/repo/biscuit-auth\", features = [\"datalog-macro\", \"pem\"] }\nserde_json = \"1\"\nhex = \"0.4\"\nrand = \"0.8\"\n\n[profile.dev]\nopt-level = 0\ndebug = false\nincremental = true\n",
    )
    .unwrap();
    std::fs::write(dir.join(".cargo/config.toml"), "[net]\noffline = true\n").unwrap();
    let _ = std::fs::copy(verif.join("harness/Cargo.lock"), dir.join("Cargo.lock"));
    let build = std::process::Command::new("cargo").args(["build", "--offline", "--quiet"]).current_dir(&dir).env("CARGO_NET_OFFLINE", "true").output().unwrap();
    let mut outs: Vec<Value> = vec![];
    if !build.status.success() {
        let err = String::from_utf8_lossy(&build.stderr).to_string();
        let short: String = err.lines().filter(|l| l.starts_with("error")).take(8).collect::<Vec<_>>().join(" | ");
        for _ in &cases {
            outs.push(json!({"build_failed": short}));
        }
    } else {
        let run = std::process::Command::new(dir.join("target/debug/c18gen")).output().unwrap();
        for l in String::from_utf8_lossy(&run.stdout).lines() {
            if let Ok(v) = serde_json::from_str::<Value>(l) {
                outs.push(v);
            }
        }
        while outs.len() < cases.len() {
            outs.push(json!({"missing_output": format!("the generated program ended with {:?}", run.status)}));
        }
    }
    let mut stats: BTreeMap<String, u64> = BTreeMap::new();
    for (c, o) in cases.iter().zip(outs.iter()) {
        let k = if o.get("build_failed").is_some() {
            "BUILD_FAILED".to_string()
        } else if o["macro"] == o["runtime"] {
            format!("{}{}/same", c["kind"].as_str().unwrap(), if c["merge"] == true { "_merge" } else { "" })
        } else {
            format!("{}{}/DIFFERENT", c["kind"].as_str().unwrap(), if c["merge"] == true { "_merge" } else { "" })
        };
        *stats.entry(k).or_insert(0) += 1;
        sink.put(c, o);
    }
    let total = sink.count;
    sink.finish();
    let st = json!({"stream": "macros", "cases": total, "histogram": stats});
    std::fs::write(format!("{}/macros.stats.json", opts.out), st.to_string()).unwrap();
    let _ = AuthorizerBuilder::new();
}
