//! stream `engine`: datalog::World vs Model/Datalog
use crate::common::*;
use crate::jsonio::*;
use biscuit_auth::datalog::{
    Binary, Expression, Fact, MapKey, Op, Origin, Predicate, Rule, RunLimits, SymbolTable, Term, TrustedOrigins, Unary, World,
};
use rand::rngs::StdRng;
use rand::Rng;
use serde_json::{json, Value};
use std::collections::{BTreeMap, BTreeSet};
use std::time::Duration;

pub const AUTHORIZER: u64 = u64::MAX;

pub fn pred_to_json(p: &Predicate) -> Value {
    json!({"n": p.name, "t": p.terms.iter().map(term_to_json).collect::<Vec<_>>()})
}

pub fn pred_from_json(v: &Value) -> Predicate {
    Predicate {
        name: v["n"].as_u64().unwrap(),
        terms: v["t"].as_array().unwrap().iter().map(term_from_json).collect(),
    }
}

pub fn rule_to_json(r: &Rule) -> Value {
    json!({
        "h": pred_to_json(&r.head),
        "b": r.body.iter().map(pred_to_json).collect::<Vec<_>>(),
        "e": r.expressions.iter().map(|e| e.ops.iter().map(op_to_json).collect::<Vec<_>>()).collect::<Vec<_>>(),
    })
}

pub fn rule_from_json(v: &Value) -> Rule {
    Rule {
        head: pred_from_json(&v["h"]),
        body: v["b"].as_array().unwrap().iter().map(pred_from_json).collect(),
        expressions: v["e"]
            .as_array()
            .unwrap()
            .iter()
            .map(|e| Expression { ops: e.as_array().unwrap().iter().map(op_from_json).collect() })
            .collect(),
        scopes: vec![],
    }
}

fn ids(v: &Value) -> Vec<usize> {
    v.as_array().unwrap().iter().map(|x| x.as_u64().unwrap() as usize).collect()
}

fn origin_json(o: &Origin) -> Value {
    // Origin has no public accessor: go through Display ("0, 2, authorizer")
    let s = format!("{}", o);
    let v: Vec<u64> = s
        .split(", ")
        .filter(|x| !x.is_empty())
        .map(|x| if x == "authorizer" { AUTHORIZER } else { x.parse().unwrap() })
        .collect();
    json!(v)
}

pub fn facts_json(w: &World) -> Value {
    let mut v: Vec<String> = w
        .facts
        .iter_all()
        .map(|(o, f)| json!([origin_json(o), pred_to_json(&f.predicate)]).to_string())
        .collect();
    v.sort();
    Value::Array(v.into_iter().map(|s| serde_json::from_str(&s).unwrap()).collect())
}

fn exec_class(e: &biscuit_auth::error::Execution) -> String {
    use biscuit_auth::error::{Execution, RunLimit};
    match e {
        Execution::Expression(_) => "exec".to_string(),
        Execution::RunLimit(RunLimit::TooManyFacts) => "limit:TooManyFacts".to_string(),
        Execution::RunLimit(RunLimit::TooManyIterations) => "limit:TooManyIterations".to_string(),
        Execution::RunLimit(RunLimit::Timeout) => "limit:Timeout".to_string(),
        Execution::RunLimit(_) => "limit:other".to_string(),
    }
}

fn exec_kind(e: &biscuit_auth::error::Execution) -> String {
    use biscuit_auth::error::Execution;
    match e {
        Execution::Expression(x) => format!("{:?}", x).split('(').next().unwrap().to_string(),
        _ => "".to_string(),
    }
}

pub fn run_case(case: &Value) -> Value {
    let case = case.clone();
    let res = std::panic::catch_unwind(move || {
        let mut symbols = SymbolTable::new();
        for s in case["symbols"].as_array().unwrap() {
            let b = hex::decode(s.as_str().unwrap()).unwrap();
            symbols.insert(std::str::from_utf8(&b).unwrap());
        }
        let mut w = World::new();
        for f in case["facts"].as_array().unwrap() {
            let o: Origin = ids(&f[0]).into_iter().collect();
            w.add_fact(&o, Fact { predicate: pred_from_json(&f[1]) });
        }
        for r in case["rules"].as_array().unwrap() {
            let t: TrustedOrigins = ids(&r[1]).into_iter().collect();
            w.add_rule(r[0].as_u64().unwrap() as usize, &t, rule_from_json(&r[2]));
        }
        let lim = &case["limits"];
        let limits = RunLimits {
            max_facts: lim["f"].as_u64().unwrap(),
            max_iterations: lim["i"].as_u64().unwrap(),
            max_time: Duration::from_secs(3600),
        };
        let r = w.run_with_limits(&symbols, limits);
        let mut out = serde_json::Map::new();
        match &r {
            Ok(()) => {
                out.insert("r".into(), json!("ok"));
            }
            Err(e) => {
                out.insert("r".into(), json!(exec_class(e)));
                out.insert("kind".into(), json!(exec_kind(e)));
            }
        }
        out.insert("iterations".into(), json!(w.iterations));
        out.insert("facts".into(), facts_json(&w));
        let mut qs = vec![];
        for q in case["queries"].as_array().unwrap() {
            let t: TrustedOrigins = ids(&q["trusted"]).into_iter().collect();
            let blk = q["blk"].as_u64().unwrap() as usize;
            let rule = rule_from_json(&q["rule"]);
            let o = match q["kind"].as_str().unwrap() {
                "rule" => match w.query_rule(rule, blk, &t, &symbols) {
                    Ok(fs) => {
                        let mut ww = World::new();
                        ww.facts = fs;
                        json!({"facts": facts_json(&ww)})
                    }
                    Err(e) => json!({"err": exec_class(&e), "kind": exec_kind(&e)}),
                },
                "match" => match w.query_match(rule, blk, &t, &symbols) {
                    Ok(b) => json!({"b": b}),
                    Err(e) => json!({"err": exec_class(&e), "kind": exec_kind(&e)}),
                },
                _ => match w.query_match_all(rule, &t, &symbols) {
                    Ok(b) => json!({"b": b}),
                    Err(e) => json!({"err": exec_class(&e), "kind": exec_kind(&e)}),
                },
            };
            qs.push(o);
        }
        out.insert("queries".into(), Value::Array(qs));
        Value::Object(out)
    });
    match res {
        Ok(v) => v,
        Err(e) => json!({"panic": panic_msg(e)}),
    }
}

// ---------------------------------------------------------------- generator

#[derive(Clone, Copy, PartialEq, Debug)]
pub enum CT {
    Int,
    Str,
    Bool,
    Any,
}

/// predicates with fixed column types: (symbol index, columns)
pub const PREDS: [(u64, &[CT]); 7] = [
    (1024, &[CT::Int, CT::Int]),
    (1025, &[CT::Int, CT::Str]),
    (1026, &[CT::Int]),
    (1027, &[CT::Str]),
    (1028, &[]),
    (1029, &[CT::Int, CT::Any, CT::Bool]),
    (1030, &[CT::Any]),
];
pub const SYMS: [&str; 16] = ["p0", "p1", "p2", "p3", "p4", "p5", "p6", "a", "b", "ab", "file1", "x", "re", "ad", "", "us"];

pub fn const_of(rng: &mut StdRng, t: CT) -> Term {
    match t {
        CT::Int => Term::Integer(rng.gen_range(0..4)),
        CT::Str => Term::Str(1031 + rng.gen_range(0..5)),
        CT::Bool => Term::Bool(rng.gen()),
        CT::Any => match rng.gen_range(0..9) {
            0 => Term::Integer(rng.gen_range(0..3)),
            1 => Term::Str(1031 + rng.gen_range(0..3)),
            2 => Term::Date(rng.gen_range(0..3)),
            3 => Term::Bytes(vec![rng.gen_range(0..2)]),
            4 => Term::Bool(rng.gen()),
            5 => Term::Set((0..rng.gen_range(0..3)).map(|_| Term::Integer(rng.gen_range(0..3))).collect::<BTreeSet<_>>()),
            6 => Term::Null,
            7 => Term::Array((0..rng.gen_range(0..3)).map(|_| Term::Integer(rng.gen_range(0..3))).collect()),
            _ => Term::Map(
                (0..rng.gen_range(0..3))
                    .map(|_| (MapKey::Integer(rng.gen_range(0..2)), Term::Integer(rng.gen_range(0..3))))
                    .collect::<BTreeMap<_, _>>(),
            ),
        },
    }
}

pub struct RuleGen {
    /// variables in scope with their column type
    pub vars: Vec<(u32, CT)>,
}

impl RuleGen {
    fn var_for(&mut self, rng: &mut StdRng, t: CT) -> u32 {
        let c: Vec<u32> = self.vars.iter().filter(|(_, ty)| *ty == t).map(|(v, _)| *v).collect();
        if !c.is_empty() && rng.gen_range(0..3) > 0 {
            *pick(rng, &c)
        } else {
            let v = 100 + self.vars.len() as u32;
            self.vars.push((v, t));
            v
        }
    }
    pub fn body_pred(&mut self, rng: &mut StdRng) -> Predicate {
        let (name, cols) = *pick(rng, &PREDS);
        let terms = cols
            .iter()
            .map(|t| {
                if rng.gen_range(0..4) == 0 {
                    const_of(rng, *t)
                } else {
                    Term::Variable(self.var_for(rng, *t))
                }
            })
            .collect();
        Predicate { name, terms }
    }
    pub fn head_pred(&mut self, rng: &mut StdRng) -> Predicate {
        let (name, cols) = *pick(rng, &PREDS);
        let terms = cols
            .iter()
            .map(|t| {
                let c: Vec<u32> = self.vars.iter().filter(|(_, ty)| *ty == *t || *t == CT::Any).map(|(v, _)| *v).collect();
                if rng.gen_range(0..30) == 0 {
                    Term::Variable(777) // unbound head variable
                } else if !c.is_empty() && rng.gen_range(0..5) > 0 {
                    Term::Variable(*pick(rng, &c))
                } else {
                    const_of(rng, *t)
                }
            })
            .collect();
        Predicate { name, terms }
    }
    pub fn expr(&mut self, rng: &mut StdRng) -> Expression {
        let ints: Vec<u32> = self.vars.iter().filter(|(_, t)| *t == CT::Int).map(|(v, _)| *v).collect();
        let strs: Vec<u32> = self.vars.iter().filter(|(_, t)| *t == CT::Str).map(|(v, _)| *v).collect();
        let anys: Vec<u32> = self.vars.iter().map(|(v, _)| *v).collect();
        let mut ops = vec![];
        match rng.gen_range(0..10) {
            0..=3 if !ints.is_empty() => {
                ops.push(Op::Value(Term::Variable(*pick(rng, &ints))));
                if ints.len() > 1 && rng.gen() {
                    ops.push(Op::Value(Term::Variable(*pick(rng, &ints))));
                } else {
                    ops.push(Op::Value(Term::Integer(rng.gen_range(0..4))));
                }
                ops.push(Op::Binary(pick(rng, &[Binary::LessThan, Binary::GreaterOrEqual, Binary::Equal, Binary::NotEqual, Binary::HeterogeneousEqual]).clone()));
            }
            4 if !ints.is_empty() => {
                // may divide by zero for some bindings
                ops.push(Op::Value(Term::Integer(6)));
                ops.push(Op::Value(Term::Variable(*pick(rng, &ints))));
                ops.push(Op::Binary(Binary::Div));
                ops.push(Op::Value(Term::Integer(2)));
                ops.push(Op::Binary(Binary::GreaterThan));
            }
            5 if !strs.is_empty() => {
                ops.push(Op::Value(Term::Variable(*pick(rng, &strs))));
                ops.push(Op::Value(Term::Str(1031 + rng.gen_range(0..3))));
                ops.push(Op::Binary(pick(rng, &[Binary::Prefix, Binary::Contains, Binary::Equal, Binary::Suffix]).clone()));
            }
            7 if !anys.is_empty() => {
                ops.push(Op::Value(Term::Variable(*pick(rng, &anys))));
                ops.push(Op::Unary(Unary::TypeOf));
                ops.push(Op::Value(Term::Variable(*pick(rng, &anys))));
                ops.push(Op::Unary(Unary::TypeOf));
                ops.push(Op::Binary(Binary::Equal));
            }
            8 if !anys.is_empty() => {
                ops.push(Op::Value(Term::Variable(*pick(rng, &anys))));
                ops.push(Op::Value(Term::Integer(1)));
                ops.push(Op::Binary(Binary::HeterogeneousNotEqual));
            }
            5 | 6 => {
                // a string built during evaluation and compared with one that is in the table: `"a" + "b"` is `"ab"`,
                // `"re" + "ad"` is the default symbol `"read"`, the same string built twice is the same string
                let (l, r, whole): (u64, u64, u64) = *pick(rng, &[(1031, 1032, 1033), (1036, 1037, 0), (1038, 0, 0), (0, 1038, 0), (1039, 1032, 1033), (1031, 1031, 1033)]);
                ops.push(Op::Value(Term::Str(l)));
                ops.push(Op::Value(Term::Str(r)));
                ops.push(Op::Binary(Binary::Add));
                if rng.gen_range(0..3) == 0 {
                    ops.push(Op::Value(Term::Str(l)));
                    ops.push(Op::Value(Term::Str(r)));
                    ops.push(Op::Binary(Binary::Add));
                } else {
                    ops.push(Op::Value(Term::Str(whole)));
                }
                ops.push(Op::Binary(pick(rng, &[Binary::Equal, Binary::HeterogeneousEqual, Binary::NotEqual]).clone()));
            }
            9 => {
                // a variable that may not be bound by the body
                ops.push(Op::Value(Term::Variable(100 + rng.gen_range(0..4))));
                ops.push(Op::Value(Term::Integer(1)));
                ops.push(Op::Binary(Binary::HeterogeneousEqual));
            }
            _ => {
                ops.push(Op::Value(Term::Bool(rng.gen_range(0..4) > 0)));
            }
        }
        Expression { ops }
    }
}

pub fn gen_rule(rng: &mut StdRng) -> Rule {
    let mut g = RuleGen { vars: vec![] };
    let nb = *pick(rng, &[0usize, 1, 1, 1, 2, 2, 2, 3]);
    let body: Vec<Predicate> = (0..nb).map(|_| g.body_pred(rng)).collect();
    let head = g.head_pred(rng);
    let ne = *pick(rng, &[0usize, 0, 0, 1, 1, 2]);
    let expressions = (0..ne).map(|_| g.expr(rng)).collect();
    Rule { head, body, expressions, scopes: vec![] }
}

pub fn gen_fact(rng: &mut StdRng) -> Predicate {
    let (name, cols) = *pick(rng, &PREDS);
    Predicate { name, terms: cols.iter().map(|t| const_of(rng, *t)).collect() }
}

const BLOCKS: [u64; 5] = [0, 1, 2, 3, AUTHORIZER];

fn gen_origin(rng: &mut StdRng) -> Vec<u64> {
    let mut s = BTreeSet::new();
    s.insert(*pick(rng, &BLOCKS));
    if rng.gen_range(0..4) == 0 {
        s.insert(*pick(rng, &BLOCKS));
    }
    s.into_iter().collect()
}

fn gen_trusted(rng: &mut StdRng) -> Vec<u64> {
    let mut s = BTreeSet::new();
    for b in BLOCKS.iter() {
        if rng.gen_range(0..3) > 0 {
            s.insert(*b);
        }
    }
    s.into_iter().collect()
}

fn gen_case(rng: &mut StdRng) -> Value {
    let nf = rng.gen_range(0..12);
    let mut facts: Vec<Value> = (0..nf).map(|_| json!([gen_origin(rng), pred_to_json(&gen_fact(rng))])).collect();
    if rng.gen_range(0..3) == 0 {
        // a chain, so that recursive rules need several iterations and build multi-block origins
        let len = rng.gen_range(2..6);
        for k in 0..len {
            let o = vec![*pick(rng, &[0u64, 0, 1, 2, AUTHORIZER])];
            facts.push(json!([o, pred_to_json(&Predicate { name: 1024, terms: vec![Term::Integer(k), Term::Integer(k + 1)] })]));
        }
    }
    let nr = rng.gen_range(0..6);
    let mut rules: Vec<Value> = (0..nr)
        .map(|_| json!([*pick(rng, &BLOCKS), gen_trusted(rng), rule_to_json(&gen_rule(rng))]))
        .collect();
    if rng.gen_range(0..3) == 0 {
        // transitive closure over p0 and a projection: needs several iterations
        let v = |i: u32| Term::Variable(i);
        let p0 = |a: Term, b: Term| Predicate { name: 1024, terms: vec![a, b] };
        rules.push(json!([0, [0, 1, 2, 3, AUTHORIZER], rule_to_json(&Rule {
            head: p0(v(1), v(3)), body: vec![p0(v(1), v(2)), p0(v(2), v(3))], expressions: vec![], scopes: vec![] })]));
        rules.push(json!([1, [0, 1, AUTHORIZER], rule_to_json(&Rule {
            head: Predicate { name: 1026, terms: vec![v(1)] }, body: vec![p0(v(1), v(1))], expressions: vec![], scopes: vec![] })]));
    }
    if !rules.is_empty() && rng.gen_range(0..3) == 0 {
        // the same rule carried by another block under the same trusted set: each copy stamps its own block on
        // what it derives
        for _ in 0..rng.gen_range(1..3) {
            let mut r = rules[rng.gen_range(0..rules.len())].clone();
            r[0] = json!(*pick(rng, &BLOCKS));
            let at = rng.gen_range(0..=rules.len());
            rules.insert(at, r);
        }
    }
    let nq = rng.gen_range(0..4);
    let queries: Vec<Value> = (0..nq)
        .map(|_| {
            json!({"kind": *pick(rng, &["rule", "match", "all"]), "blk": *pick(rng, &BLOCKS),
                   "trusted": gen_trusted(rng), "rule": rule_to_json(&gen_rule(rng))})
        })
        .collect();
    json!({
        "op": "engine",
        "symbols": SYMS.iter().map(|s| hex::encode(s.as_bytes())).collect::<Vec<_>>(),
        "facts": facts, "rules": rules, "limits": {"f": 1000, "i": 100, "t": null}, "queries": queries,
    })
}

pub fn run(opts: &Opts) {
    let mut sink = Sink::new(opts, "engine");
    let mut stats: BTreeMap<String, u64> = BTreeMap::new();
    let mut emit = |sink: &mut Sink, case: Value, class: &str| -> Value {
        let out = run_case(&case);
        let k = out.get("r").and_then(|x| x.as_str()).unwrap_or("PANIC").to_string();
        *stats.entry(format!("{class}/{k}")).or_insert(0) += 1;
        if let Some(it) = out.get("iterations").and_then(|x| x.as_u64()) {
            *stats.entry(format!("iterations/{}", it.min(6))).or_insert(0) += 1;
        }
        sink.put(&case, &out);
        out
    };
    if let Some(path) = &opts.replay {
        for case in read_cases(path) {
            emit(&mut sink, case, "replay");
        }
        sink.finish();
        return;
    }
    for case in read_cases("corpus/engine.jsonl") {
        emit(&mut sink, case, "corpus");
    }
    let n = if opts.n > 0 { opts.n } else if opts.thorough { 60_000 } else { 2_500 };
    for i in 0..n {
        let mut rng = case_rng(opts.seed, 5, i as u64);
        let case = gen_case(&mut rng);
        let out = emit(&mut sink, case.clone(), "gen");
        // boundary limits around what this program actually needs
        if i % 4 == 0 && out.get("r").and_then(|x| x.as_str()) == Some("ok") {
            let it = out["iterations"].as_u64().unwrap();
            let nf = out["facts"].as_array().unwrap().len() as u64;
            let mut variants = vec![];
            for di in [it.saturating_sub(1), it, it + 1] {
                variants.push((1000u64, di));
            }
            for df in [nf.saturating_sub(1), nf, nf + 1] {
                variants.push((df, 100u64));
            }
            variants.push((0, 0));
            let (f, it2) = variants[rng.gen_range(0..variants.len())];
            if !(it2 == 0 && it > 50) {
                let mut c2 = case.clone();
                c2["limits"] = json!({"f": f, "i": it2, "t": null});
                emit(&mut sink, c2, "limits");
            }
        }
    }
    let total = sink.count;
    sink.finish();
    let st = json!({"stream": "engine", "cases": total, "histogram": stats});
    std::fs::write(format!("{}/engine.stats.json", opts.out), st.to_string()).unwrap();
}
