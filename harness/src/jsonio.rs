//! JSON forms of datalog values (DESIGN.md Appendix B).
use biscuit_auth::datalog::{Binary, MapKey, Op, Term, Unary};
use serde_json::{json, Value};
use std::collections::{BTreeMap, BTreeSet};

pub fn term_to_json(t: &Term) -> Value {
    match t {
        Term::Variable(v) => json!({"v": v}),
        Term::Integer(i) => json!({"i": i}),
        Term::Str(s) => json!({"s": s}),
        Term::Date(d) => json!({"d": d}),
        Term::Bytes(b) => json!({"b": hex::encode(b)}),
        Term::Bool(b) => json!({"t": b}),
        Term::Set(s) => json!({"set": s.iter().map(term_to_json).collect::<Vec<_>>()}),
        Term::Null => json!({"null": 0}),
        Term::Array(a) => json!({"arr": a.iter().map(term_to_json).collect::<Vec<_>>()}),
        Term::Map(m) => json!({"map": m.iter().map(|(k, v)| {
            let k = match k {
                MapKey::Integer(i) => json!({"i": i}),
                MapKey::Str(s) => json!({"s": s}),
            };
            json!([k, term_to_json(v)])
        }).collect::<Vec<_>>()}),
    }
}

pub fn term_from_json(v: &Value) -> Term {
    if let Some(x) = v.get("v") {
        return Term::Variable(x.as_u64().unwrap() as u32);
    }
    if let Some(x) = v.get("i") {
        return Term::Integer(x.as_i64().unwrap());
    }
    if let Some(x) = v.get("s") {
        return Term::Str(x.as_u64().unwrap());
    }
    if let Some(x) = v.get("d") {
        return Term::Date(x.as_u64().unwrap());
    }
    if let Some(x) = v.get("b") {
        return Term::Bytes(hex::decode(x.as_str().unwrap()).unwrap());
    }
    if let Some(x) = v.get("t") {
        return Term::Bool(x.as_bool().unwrap());
    }
    if v.get("null").is_some() {
        return Term::Null;
    }
    if let Some(x) = v.get("set") {
        return Term::Set(x.as_array().unwrap().iter().map(term_from_json).collect::<BTreeSet<_>>());
    }
    if let Some(x) = v.get("arr") {
        return Term::Array(x.as_array().unwrap().iter().map(term_from_json).collect());
    }
    if let Some(x) = v.get("map") {
        let mut m = BTreeMap::new();
        for kv in x.as_array().unwrap() {
            let k = &kv[0];
            let key = if let Some(i) = k.get("i") {
                MapKey::Integer(i.as_i64().unwrap())
            } else {
                MapKey::Str(k["s"].as_u64().unwrap())
            };
            m.insert(key, term_from_json(&kv[1]));
        }
        return Term::Map(m);
    }
    panic!("bad term json {v}")
}

pub fn unary_to_json(u: &Unary) -> Value {
    match u {
        Unary::Negate => json!("Negate"),
        Unary::Parens => json!("Parens"),
        Unary::Length => json!("Length"),
        Unary::TypeOf => json!("TypeOf"),
        Unary::Ffi(n) => json!({"ffi": n}),
    }
}

pub fn binary_to_json(b: &Binary) -> Value {
    match b {
        Binary::Ffi(n) => json!({"ffi": n}),
        other => json!(format!("{:?}", other)),
    }
}

pub const BINARIES: [Binary; 28] = [
    Binary::LessThan,
    Binary::GreaterThan,
    Binary::LessOrEqual,
    Binary::GreaterOrEqual,
    Binary::Equal,
    Binary::Contains,
    Binary::Prefix,
    Binary::Suffix,
    Binary::Regex,
    Binary::Add,
    Binary::Sub,
    Binary::Mul,
    Binary::Div,
    Binary::And,
    Binary::Or,
    Binary::Intersection,
    Binary::Union,
    Binary::BitwiseAnd,
    Binary::BitwiseOr,
    Binary::BitwiseXor,
    Binary::NotEqual,
    Binary::HeterogeneousEqual,
    Binary::HeterogeneousNotEqual,
    Binary::LazyAnd,
    Binary::LazyOr,
    Binary::All,
    Binary::Any,
    Binary::Get,
];

pub fn binary_from_json(v: &Value) -> Binary {
    if let Some(n) = v.get("ffi") {
        return Binary::Ffi(n.as_u64().unwrap());
    }
    let s = v.as_str().unwrap();
    for b in BINARIES.iter() {
        if format!("{:?}", b) == s {
            return b.clone();
        }
    }
    panic!("bad binary {s}")
}

pub fn unary_from_json(v: &Value) -> Unary {
    if let Some(n) = v.get("ffi") {
        return Unary::Ffi(n.as_u64().unwrap());
    }
    match v.as_str().unwrap() {
        "Negate" => Unary::Negate,
        "Parens" => Unary::Parens,
        "Length" => Unary::Length,
        "TypeOf" => Unary::TypeOf,
        s => panic!("bad unary {s}"),
    }
}

pub fn op_to_json(op: &Op) -> Value {
    match op {
        Op::Value(t) => json!({"val": term_to_json(t)}),
        Op::Unary(u) => json!({"un": unary_to_json(u)}),
        Op::Binary(b) => json!({"bin": binary_to_json(b)}),
        Op::Closure(params, ops) => json!({"clo": [params, ops.iter().map(op_to_json).collect::<Vec<_>>()]}),
    }
}

pub fn op_from_json(v: &Value) -> Op {
    if let Some(x) = v.get("val") {
        return Op::Value(term_from_json(x));
    }
    if let Some(x) = v.get("un") {
        return Op::Unary(unary_from_json(x));
    }
    if let Some(x) = v.get("bin") {
        return Op::Binary(binary_from_json(x));
    }
    if let Some(x) = v.get("clo") {
        let params = x[0].as_array().unwrap().iter().map(|p| p.as_u64().unwrap() as u32).collect();
        let ops = x[1].as_array().unwrap().iter().map(op_from_json).collect();
        return Op::Closure(params, ops);
    }
    panic!("bad op {v}")
}

/// outcome form of a term: strings by content
pub fn term_out(t: &Term, get: &dyn Fn(u64) -> Option<String>) -> Value {
    let s_out = |s: u64| match get(s) {
        Some(x) => json!({"s": hex::encode(x.as_bytes())}),
        None => json!({"s?": s}),
    };
    match t {
        Term::Variable(v) => json!({"v": v}),
        Term::Integer(i) => json!({"i": i}),
        Term::Str(s) => s_out(*s),
        Term::Date(d) => json!({"d": d}),
        Term::Bytes(b) => json!({"b": hex::encode(b)}),
        Term::Bool(b) => json!({"t": b}),
        Term::Set(s) => json!({"set": s.iter().map(|x| term_out(x, get)).collect::<Vec<_>>()}),
        Term::Null => json!({"null": 0}),
        Term::Array(a) => json!({"arr": a.iter().map(|x| term_out(x, get)).collect::<Vec<_>>()}),
        Term::Map(m) => json!({"map": m.iter().map(|(k, v)| {
            let k = match k {
                MapKey::Integer(i) => json!({"i": i}),
                MapKey::Str(s) => s_out(*s),
            };
            json!([k, term_out(v, get)])
        }).collect::<Vec<_>>()}),
    }
}
