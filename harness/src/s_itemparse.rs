//! stream `itemparse`: rule bodies, rules, checks and policies against their Lean parser model (C14)
//!
//! A case is a kind and a text.  The implementation side is the parser entry point itself
//! (`rule_body`, `check_body`, `rule_inner`, `check`, `policy` of `biscuit_parser::parser`): what it
//! builds and how many characters were left, or which of nom's two error classes came back.
use crate::common::*;
use crate::prog::Keys;
use crate::s_print::{gen_check, gen_policy, gen_rule};
use crate::s_termparse::{date_table, term_j};
use biscuit_parser::builder::{Algorithm, Binary, Expression, Op, Predicate, Scope, Unary};
use rand::rngs::StdRng;
use rand::Rng;
use serde_json::{json, Value};
use std::collections::BTreeMap;

fn bin_name(b: &Binary) -> Value {
    use Binary::*;
    let n = match b {
        LessThan => "lt", GreaterThan => "gt", LessOrEqual => "le", GreaterOrEqual => "ge", Equal => "eq", Contains => "contains",
        Prefix => "prefix", Suffix => "suffix", Regex => "regex", Add => "add", Sub => "sub", Mul => "mul", Div => "div", And => "and",
        Or => "or", Intersection => "intersection", Union => "union", BitwiseAnd => "band", BitwiseOr => "bor", BitwiseXor => "bxor",
        NotEqual => "ne", HeterogeneousEqual => "heq", HeterogeneousNotEqual => "hne", LazyAnd => "lazyand", LazyOr => "lazyor",
        All => "all", Any => "any", Get => "get",
        Ffi(n) => return json!({"bin": "ffi", "name": n}),
    };
    json!({"bin": n})
}

fn op_j(op: &Op) -> Value {
    match op {
        Op::Value(t) => json!({"val": term_j(t)}),
        Op::Unary(u) => match u {
            Unary::Negate => json!({"un": "negate"}),
            Unary::Parens => json!({"un": "parens"}),
            Unary::Length => json!({"un": "length"}),
            Unary::TypeOf => json!({"un": "type"}),
            Unary::Ffi(n) => json!({"un": "ffi", "name": n}),
        },
        Op::Binary(b) => bin_name(b),
        Op::Closure(ps, ops) => json!({"clo": ps, "ops": ops.iter().map(op_j).collect::<Vec<_>>()}),
    }
}

pub(crate) fn pred_j(p: &Predicate) -> Value {
    json!({"name": p.name, "terms": p.terms.iter().map(term_j).collect::<Vec<_>>()})
}

pub(crate) fn scope_j(s: &Scope) -> Value {
    match s {
        Scope::Authority => json!({"authority": true}),
        Scope::Previous => json!({"previous": true}),
        Scope::PublicKey(k) => json!({"key": format!("{}/{}", match k.algorithm { Algorithm::Ed25519 => "ed25519", Algorithm::Secp256r1 => "secp256r1" }, hex::encode(&k.key))}),
        Scope::Parameter(p) => json!({"param": p}),
    }
}

pub(crate) fn body_j(preds: &[Predicate], exprs: &[Expression], scopes: &[Scope]) -> Value {
    json!({
        "preds": preds.iter().map(pred_j).collect::<Vec<_>>(),
        "exprs": exprs.iter().map(|e| e.ops.iter().map(op_j).collect::<Vec<_>>()).collect::<Vec<_>>(),
        "scopes": scopes.iter().map(scope_j).collect::<Vec<_>>(),
    })
}

fn cls<T>(r: Result<T, nom::Err<biscuit_parser::parser::Error>>, f: impl FnOnce(T) -> Value) -> Value {
    match r {
        Ok(v) => f(v),
        Err(nom::Err::Error(_)) => json!({"r": "err"}),
        Err(nom::Err::Failure(_)) => json!({"r": "fail"}),
        Err(nom::Err::Incomplete(_)) => json!({"r": "incomplete"}),
    }
}

pub fn run_case(case: &Value) -> Value {
    let text = case["text"].as_str().unwrap().to_string();
    let kind = case["kind"].as_str().unwrap().to_string();
    let r = std::panic::catch_unwind(|| {
        use biscuit_parser::parser as p;
        match kind.as_str() {
            "body" => cls(p::rule_body(&text), |(rest, (ps, es, ss))| json!({"r": "ok", "rest": rest.chars().count(), "body": body_j(&ps, &es, &ss)})),
            "checkbody" => cls(p::check_body(&text), |(rest, qs)| {
                json!({"r": "ok", "rest": rest.chars().count(), "bodies": qs.iter().map(|q| body_j(&q.body, &q.expressions, &q.scopes)).collect::<Vec<_>>()})
            }),
            "rule" => cls(p::rule_inner(&text), |(rest, r)| {
                json!({"r": "ok", "rest": rest.chars().count(), "head": pred_j(&r.head), "body": body_j(&r.body, &r.expressions, &r.scopes)})
            }),
            "check" => cls(p::check(&text), |(rest, c)| {
                json!({"r": "ok", "rest": rest.chars().count(), "kind": format!("{:?}", c.kind).to_lowercase(),
                       "bodies": c.queries.iter().map(|q| body_j(&q.body, &q.expressions, &q.scopes)).collect::<Vec<_>>()})
            }),
            _ => cls(p::policy(&text), |(rest, c)| {
                json!({"r": "ok", "rest": rest.chars().count(), "kind": format!("{:?}", c.kind).to_lowercase(),
                       "bodies": c.queries.iter().map(|q| body_j(&q.body, &q.expressions, &q.scopes)).collect::<Vec<_>>()})
            }),
        }
    });
    match r {
        Ok(v) => v,
        Err(e) => json!({"panic": panic_msg(e)}),
    }
}

const FRAGS: [&str; 60] = [
    "f($x)", "g($x, 1)", "h(\"a\", $y)", "f()", "f(", "f ( $x )", "ns:p($x)", "$x > 1", "$x.length() == 2", "true", "!$b", "1 + 2 < $x", "[1].contains($x)",
    "{1}.all($p -> $p > 0)", "(1)", ",", ", ", " , ", " ", "  ", "\n", "or", " or ", " OR ", " Or ", "or ", "orf($x)", "trusting", " trusting ", "trusting authority",
    "previous", "authority", ", previous", "ed25519/", "ed25519/00ff", "secp256r1/02ab", "ed25519/0", "{k}", "{ k }", "<-", " <- ", "check if ", "check all ",
    "reject if ", "allow if ", "deny if ", "CHECK IF ", "Check  if", "h($x)", "h($z)", "h(1, $x)", ";", ")", "(", "&&", "||", "$", "\"", "trustingx", "=",
];

const INS: [char; 32] = [
    ' ', '\t', '(', ')', ',', '$', '"', '!', '|', '&', '<', '>', '=', '-', '+', '.', 'o', 'r', 'O', 'R', 't', 'f', 'x', '1', '/', '{', '}', ':', ';', '\n', 'a',
    'u',
];

fn mutate(rng: &mut StdRng, text: &str) -> String {
    let mut cs: Vec<char> = text.chars().collect();
    for _ in 0..rng.gen_range(1..4) {
        if cs.is_empty() {
            cs.push(*pick(rng, &INS));
            continue;
        }
        let p = rng.gen_range(0..cs.len());
        match rng.gen_range(0..5) {
            0 => {
                cs.remove(p);
            }
            1 => cs.insert(p, *pick(rng, &INS)),
            2 => cs[p] = *pick(rng, &INS),
            3 => cs.truncate(p),
            _ => {
                let q = rng.gen_range(0..cs.len());
                cs.swap(p, q);
            }
        }
    }
    cs.into_iter().collect()
}

fn soup(rng: &mut StdRng) -> String {
    let mut s = String::new();
    for _ in 0..rng.gen_range(1..12) {
        let f: &str = *pick(rng, &FRAGS);
        s.push_str(f);
    }
    s
}

pub fn gen_case(rng: &mut StdRng, i: usize, keys: &Keys) -> Value {
    let loose = rng.gen_range(0..3) == 0;
    let kind = ["body", "checkbody", "rule", "check", "policy"][i % 5];
    let printed = match kind {
        "rule" => gen_rule(rng, keys, loose).to_string(),
        "check" => gen_check(rng, keys, loose).to_string(),
        "policy" => gen_policy(rng, keys, loose).to_string(),
        "checkbody" => {
            let s = gen_check(rng, keys, loose).to_string();
            s.splitn(3, ' ').nth(2).unwrap_or("").to_string()
        }
        _ => {
            let s = gen_rule(rng, keys, loose).to_string();
            s.split_once(" <- ").map(|x| x.1.to_string()).unwrap_or(s)
        }
    };
    let (gen, text) = match (i / 5) % 6 {
        0 | 1 => {
            let tail = if matches!(kind, "check" | "policy") { *pick(rng, &["", "", " ", "\n"]) } else { *pick(rng, &["", "", ";", ";\n", " ;", ")"]) };
            ("printed", format!("{printed}{tail}"))
        }
        2 | 3 => ("mutated", mutate(rng, &printed)),
        _ => {
            let head = match kind {
                "rule" => *pick(rng, &["h($x) <- ", "h($x)<-", "h($z) <- ", "h(1) <- ", ""]),
                "check" => *pick(rng, &["check if ", "check all ", "reject if ", "CHECK IF ", "check  if ", ""]),
                "policy" => *pick(rng, &["allow if ", "deny if ", "Allow If ", ""]),
                _ => "",
            };
            ("soup", format!("{head}{}", soup(rng)))
        }
    };
    json!({"op": "itemparse", "kind": kind, "gen": gen, "text": text, "dates": date_table(&text)})
}

pub fn run(opts: &Opts) {
    let mut sink = Sink::new(opts, "itemparse");
    let mut krng = case_rng(7, 7, 7);
    let keys = Keys::new(&mut krng);
    let mut stats: BTreeMap<String, u64> = BTreeMap::new();
    let mut emit = |sink: &mut Sink, mut case: Value| {
        let text = case["text"].as_str().unwrap().to_string();
        case["dates"] = Value::Array(date_table(&text));
        let out = run_case(&case);
        let k = if out.get("panic").is_some() { "PANIC".to_string() } else { out["r"].as_str().unwrap_or("?").to_string() };
        *stats.entry(format!("{}/{}/{}", case["kind"].as_str().unwrap_or("?"), case["gen"].as_str().unwrap_or("replay"), k)).or_insert(0) += 1;
        sink.put(&case, &out);
    };
    if let Some(path) = &opts.replay {
        for case in read_cases(path) {
            emit(&mut sink, case);
        }
        sink.finish();
        return;
    }
    for case in read_cases("corpus/itemparse.jsonl") {
        emit(&mut sink, case);
    }
    let n = if opts.n > 0 { opts.n } else if opts.thorough { 90_000 } else { 6_000 };
    for i in 0..n {
        let mut rng = case_rng(opts.seed, 25, i as u64);
        let case = gen_case(&mut rng, i, &keys);
        emit(&mut sink, case);
    }
    let total = sink.count;
    sink.finish();
    let st = json!({"stream": "itemparse", "cases": total, "histogram": stats});
    std::fs::write(format!("{}/itemparse.stats.json", opts.out), st.to_string()).unwrap();
}
