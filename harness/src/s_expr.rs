//! stream `expr`: Expression::evaluate vs Model/Expr.eval
use crate::common::*;
use crate::jsonio::*;
use biscuit_auth::datalog::{Binary, Expression, MapKey, Op, SymbolTable, TemporarySymbolTable, Term, Unary};
use rand::rngs::StdRng;
use rand::Rng;
use serde_json::{json, Value};
use std::collections::{BTreeMap, BTreeSet, HashMap};

const USER_SYMBOLS: [&str; 18] = [
    "hi", "hello", "he", "llo", "", "ab", "a", "b", "integer", "string", "h\u{e9}llo", "abab", "x/y", "set", "re", "ad", "us", "er",
];

pub fn base_table() -> SymbolTable {
    let mut t = SymbolTable::new();
    for s in USER_SYMBOLS.iter() {
        t.insert(s);
    }
    t
}

fn sym(i: usize) -> u64 {
    1024 + i as u64
}

fn set(v: Vec<Term>) -> Term {
    Term::Set(v.into_iter().collect::<BTreeSet<_>>())
}

fn map(v: Vec<(MapKey, Term)>) -> Term {
    Term::Map(v.into_iter().collect::<BTreeMap<_, _>>())
}

/// representative value set used by the exhaustive operator table
pub fn value_set() -> Vec<Term> {
    let unknown = sym(USER_SYMBOLS.len() + 3);
    vec![
        Term::Integer(0),
        Term::Integer(1),
        Term::Integer(-1),
        Term::Integer(2),
        Term::Integer(63),
        Term::Integer(i64::MIN),
        Term::Integer(i64::MAX),
        Term::Integer(i64::MIN + 1),
        Term::Integer(i64::MAX - 1),
        Term::Integer(3037000500),
        Term::Str(sym(0)),
        Term::Str(sym(1)),
        Term::Str(sym(2)),
        Term::Str(sym(3)),
        Term::Str(sym(4)),
        Term::Str(sym(10)),
        Term::Str(0),
        Term::Str(27),
        Term::Str(500),
        Term::Str(unknown),
        Term::Date(0),
        Term::Date(1),
        Term::Date(u64::MAX),
        Term::Bytes(vec![]),
        Term::Bytes(vec![0]),
        Term::Bytes(vec![1, 2]),
        Term::Bool(true),
        Term::Bool(false),
        set(vec![]),
        set(vec![Term::Integer(1)]),
        set(vec![Term::Integer(1), Term::Integer(2)]),
        set(vec![Term::Str(sym(0)), Term::Str(sym(1))]),
        set(vec![Term::Bool(true), Term::Integer(1)]),
        set(vec![Term::Null]),
        set(vec![Term::Bytes(vec![0]), Term::Date(1)]),
        Term::Null,
        Term::Array(vec![]),
        Term::Array(vec![Term::Integer(1)]),
        Term::Array(vec![Term::Integer(1), Term::Integer(2)]),
        Term::Array(vec![Term::Str(sym(0))]),
        Term::Array(vec![Term::Null, Term::Array(vec![Term::Integer(1)])]),
        map(vec![]),
        map(vec![(MapKey::Integer(1), Term::Integer(1))]),
        map(vec![(MapKey::Str(sym(0)), Term::Integer(2))]),
        map(vec![(MapKey::Integer(0), Term::Null), (MapKey::Str(sym(6)), Term::Array(vec![Term::Integer(1)]))]),
        Term::Variable(7),
        Term::Variable(8),
    ]
}

pub fn make_case(symbols: &SymbolTable, vals: &HashMap<u32, Term>, ops: &[Op]) -> Value {
    let mut vs: Vec<_> = vals.iter().collect();
    vs.sort_by_key(|(k, _)| **k);
    json!({
        "op": "expr",
        "symbols": symbols.strings().iter().map(|s| hex::encode(s.as_bytes())).collect::<Vec<_>>(),
        "vals": vs.iter().map(|(k, v)| json!([k, term_to_json(v)])).collect::<Vec<_>>(),
        "ops": ops.iter().map(op_to_json).collect::<Vec<_>>(),
    })
}

pub fn run_case(case: &Value) -> Value {
    let mut symbols = SymbolTable::new();
    for s in case["symbols"].as_array().unwrap() {
        let b = hex::decode(s.as_str().unwrap()).unwrap();
        symbols.insert(std::str::from_utf8(&b).unwrap());
    }
    let mut vals = HashMap::new();
    for kv in case["vals"].as_array().unwrap() {
        vals.insert(kv[0].as_u64().unwrap() as u32, term_from_json(&kv[1]));
    }
    let ops: Vec<Op> = case["ops"].as_array().unwrap().iter().map(op_from_json).collect();
    let res = std::panic::catch_unwind(move || {
        let mut tmp = TemporarySymbolTable::new(&symbols);
        let e = Expression { ops };
        match e.evaluate(&vals, &mut tmp, &HashMap::new()) {
            Ok(t) => {
                let get = |i: u64| tmp.get_symbol(i).map(|s| s.to_string());
                json!({"ok": term_out(&t, &get)})
            }
            Err(e) => {
                let dbg = format!("{:?}", e);
                let kind = dbg.split('(').next().unwrap().to_string();
                json!({"err": kind})
            }
        }
    });
    match res {
        Ok(v) => v,
        Err(e) => json!({"panic": panic_msg(e)}),
    }
}

// ---------------------------------------------------------------- generator

#[derive(Clone, Copy, PartialEq, Debug)]
enum Ty {
    Int,
    Str,
    Date,
    Bytes,
    Bool,
    Set,
    Null,
    Arr,
    Map,
}

const TYS: [Ty; 9] = [Ty::Int, Ty::Str, Ty::Date, Ty::Bytes, Ty::Bool, Ty::Set, Ty::Null, Ty::Arr, Ty::Map];

struct Gen<'a> {
    rng: &'a mut StdRng,
    env: Vec<(u32, Ty)>,
    next_var: u32,
    /// parameters of the closures generated so far in this expression
    used_params: Vec<u32>,
    /// composite string expressions generated so far: reused now and then, so that one evaluation creates
    /// the same new string more than once
    memo: Vec<Vec<Op>>,
}

impl<'a> Gen<'a> {
    fn int_lit(&mut self) -> i64 {
        match self.rng.gen_range(0..10) {
            0 => i64::MAX,
            1 => i64::MIN,
            2 => i64::MAX - self.rng.gen_range(0..3),
            3 => i64::MIN + self.rng.gen_range(0..3),
            4 => 0,
            5 => -1,
            6 => 3037000500,
            _ => self.rng.gen_range(-5..12),
        }
    }
    fn str_lit(&mut self) -> u64 {
        match self.rng.gen_range(0..12) {
            0 => self.rng.gen_range(0..28),
            1 => sym(USER_SYMBOLS.len() + self.rng.gen_range(0..3)),
            2 => self.rng.gen_range(28..1024),
            _ => sym(self.rng.gen_range(0..USER_SYMBOLS.len())),
        }
    }
    fn scalar_lit(&mut self, ty: Ty) -> Term {
        match ty {
            Ty::Int => Term::Integer(self.int_lit()),
            Ty::Str => Term::Str(self.str_lit()),
            Ty::Date => Term::Date(*pick(self.rng, &[0u64, 1, 2, 1700000000, u64::MAX])),
            Ty::Bytes => Term::Bytes(pick(self.rng, &[vec![], vec![0u8], vec![1, 2], vec![255]]).clone()),
            Ty::Bool => Term::Bool(self.rng.gen()),
            Ty::Null => Term::Null,
            _ => unreachable!(),
        }
    }
    fn lit(&mut self, ty: Ty, d: u32) -> Term {
        match ty {
            Ty::Set => {
                let et = *pick(self.rng, &[Ty::Int, Ty::Int, Ty::Str, Ty::Bool, Ty::Bytes, Ty::Date]);
                let n = self.rng.gen_range(0..4);
                set((0..n).map(|_| self.scalar_lit(et)).collect())
            }
            Ty::Arr => {
                let n = self.rng.gen_range(0..4);
                Term::Array(
                    (0..n)
                        .map(|_| {
                            let t = if d > 0 { *pick(self.rng, &TYS) } else { Ty::Int };
                            self.lit(t, d.saturating_sub(1))
                        })
                        .collect(),
                )
            }
            Ty::Map => {
                let n = self.rng.gen_range(0..3);
                map((0..n)
                    .map(|_| {
                        let k = if self.rng.gen() {
                            MapKey::Integer(self.rng.gen_range(0..3))
                        } else {
                            MapKey::Str(self.str_lit())
                        };
                        let t = if d > 0 { *pick(self.rng, &TYS) } else { Ty::Int };
                        (k, self.lit(t, d.saturating_sub(1)))
                    })
                    .collect())
            }
            t => self.scalar_lit(t),
        }
    }

    fn bin(&mut self, out: &mut Vec<Op>, lt: Ty, rt: Ty, b: Binary, d: u32) {
        self.gen(lt, d, out);
        self.gen(rt, d, out);
        out.push(Op::Binary(b));
    }

    fn closure_arg(&mut self, out: &mut Vec<Op>, elem: Ty, d: u32) {
        // 5%: shadow a bound variable; 20%: the name of an earlier closure's parameter (siblings sharing a name)
        let p = if !self.env.is_empty() && self.rng.gen_range(0..20) == 0 {
            self.env[self.rng.gen_range(0..self.env.len())].0
        } else if !self.used_params.is_empty() && self.rng.gen_range(0..5) == 0 {
            *pick(self.rng, &self.used_params)
        } else {
            self.next_var += 1;
            self.next_var
        };
        self.used_params.push(p);
        self.env.push((p, elem));
        let mut body = vec![];
        self.gen(Ty::Bool, d, &mut body);
        self.env.pop();
        out.push(Op::Closure(vec![p], body));
    }

    /// emits ops computing (mostly) a value of type `ty`
    fn gen(&mut self, ty: Ty, d: u32, out: &mut Vec<Op>) {
        // deliberate type error now and then
        let ty = if self.rng.gen_range(0..40) == 0 { *pick(self.rng, &TYS) } else { ty };
        let start = out.len();
        if ty == Ty::Str && !self.memo.is_empty() && self.rng.gen_range(0..3) == 0 {
            let k = self.rng.gen_range(0..self.memo.len());
            out.extend(self.memo[k].iter().cloned());
            return;
        }
        // now and then the parameter of a closure that has ended: unbound here, must be an error
        if !self.used_params.is_empty() && self.rng.gen_range(0..25) == 0 {
            out.push(Op::Value(Term::Variable(*pick(self.rng, &self.used_params))));
            return;
        }
        // bound variable of that type
        let cands: Vec<u32> = self.env.iter().filter(|(_, t)| *t == ty).map(|(v, _)| *v).collect();
        if !cands.is_empty() && self.rng.gen_range(0..3) == 0 {
            out.push(Op::Value(Term::Variable(*pick(self.rng, &cands))));
            return;
        }
        if d == 0 || self.rng.gen_range(0..4) == 0 {
            if self.rng.gen_range(0..60) == 0 {
                out.push(Op::Value(Term::Variable(999)));
            } else {
                let t = self.lit(ty, 1);
                out.push(Op::Value(t));
            }
            return;
        }
        let d = d - 1;
        match ty {
            Ty::Int => match self.rng.gen_range(0..12) {
                0 => self.bin(out, Ty::Int, Ty::Int, Binary::Add, d),
                1 => self.bin(out, Ty::Int, Ty::Int, Binary::Sub, d),
                2 => self.bin(out, Ty::Int, Ty::Int, Binary::Mul, d),
                3 => self.bin(out, Ty::Int, Ty::Int, Binary::Div, d),
                4 => self.bin(out, Ty::Int, Ty::Int, Binary::BitwiseAnd, d),
                5 => self.bin(out, Ty::Int, Ty::Int, Binary::BitwiseOr, d),
                6 => self.bin(out, Ty::Int, Ty::Int, Binary::BitwiseXor, d),
                7 => {
                    let t = *pick(self.rng, &[Ty::Str, Ty::Bytes, Ty::Set, Ty::Arr, Ty::Map]);
                    self.gen(t, d, out);
                    out.push(Op::Unary(Unary::Length));
                }
                8 => self.bin(out, Ty::Arr, Ty::Int, Binary::Get, d),
                9 => {
                    let kt = *pick(self.rng, &[Ty::Int, Ty::Str]);
                    self.bin(out, Ty::Map, kt, Binary::Get, d)
                }
                _ => {
                    self.gen(Ty::Int, d, out);
                    out.push(Op::Unary(Unary::Parens));
                }
            },
            Ty::Str => match self.rng.gen_range(0..3) {
                0 => {
                    self.bin(out, Ty::Str, Ty::Str, Binary::Add, d);
                    self.memo.push(out[start..].to_vec());
                }
                1 => {
                    let t = *pick(self.rng, &TYS);
                    self.gen(t, d, out);
                    out.push(Op::Unary(Unary::TypeOf));
                    self.memo.push(out[start..].to_vec());
                }
                _ => {
                    let t = self.lit(Ty::Str, 0);
                    out.push(Op::Value(t))
                }
            },
            Ty::Set => match self.rng.gen_range(0..3) {
                0 => self.bin(out, Ty::Set, Ty::Set, Binary::Union, d),
                1 => self.bin(out, Ty::Set, Ty::Set, Binary::Intersection, d),
                _ => {
                    let t = self.lit(Ty::Set, 1);
                    out.push(Op::Value(t))
                }
            },
            Ty::Bool => match self.rng.gen_range(0..22) {
                0 => {
                    let b = pick(self.rng, &[Binary::LessThan, Binary::GreaterThan, Binary::LessOrEqual, Binary::GreaterOrEqual]).clone();
                    let t = *pick(self.rng, &[Ty::Int, Ty::Int, Ty::Date]);
                    self.bin(out, t, t, b, d)
                }
                1 | 2 => {
                    let b = pick(self.rng, &[Binary::Equal, Binary::NotEqual, Binary::HeterogeneousEqual, Binary::HeterogeneousNotEqual]).clone();
                    let t = *pick(self.rng, &TYS);
                    self.bin(out, t, t, b, d)
                }
                3 => {
                    let b = pick(self.rng, &[Binary::HeterogeneousEqual, Binary::HeterogeneousNotEqual, Binary::Equal]).clone();
                    let t1 = *pick(self.rng, &TYS);
                    let t2 = *pick(self.rng, &TYS);
                    self.bin(out, t1, t2, b, d)
                }
                4 => {
                    let b = pick(self.rng, &[Binary::Contains, Binary::Prefix, Binary::Suffix, Binary::Regex]).clone();
                    self.bin(out, Ty::Str, Ty::Str, b, d)
                }
                5 => {
                    let t = *pick(self.rng, &[Ty::Int, Ty::Str, Ty::Set, Ty::Bool, Ty::Bytes, Ty::Date, Ty::Null]);
                    self.bin(out, Ty::Set, t, Binary::Contains, d)
                }
                6 => {
                    let t = *pick(self.rng, &TYS);
                    self.bin(out, Ty::Arr, t, Binary::Contains, d)
                }
                7 => {
                    let b = pick(self.rng, &[Binary::Prefix, Binary::Suffix]).clone();
                    self.bin(out, Ty::Arr, Ty::Arr, b, d)
                }
                8 => {
                    let t = *pick(self.rng, &[Ty::Int, Ty::Str, Ty::Bool]);
                    self.bin(out, Ty::Map, t, Binary::Contains, d)
                }
                9 => {
                    self.gen(Ty::Bool, d, out);
                    out.push(Op::Unary(Unary::Negate));
                }
                10 => {
                    self.gen(Ty::Bool, d, out);
                    out.push(Op::Unary(Unary::Parens));
                }
                11 => self.bin(out, Ty::Bool, Ty::Bool, Binary::And, d),
                12 => self.bin(out, Ty::Bool, Ty::Bool, Binary::Or, d),
                13 | 14 | 15 => {
                    self.gen(Ty::Bool, d, out);
                    let mut body = vec![];
                    self.gen(Ty::Bool, d, &mut body);
                    out.push(Op::Closure(vec![], body));
                    out.push(Op::Binary(if self.rng.gen() { Binary::LazyAnd } else { Binary::LazyOr }));
                }
                16 | 17 | 18 | 19 => {
                    let (ct, et) = *pick(self.rng, &[(Ty::Set, Ty::Int), (Ty::Arr, Ty::Int), (Ty::Map, Ty::Arr), (Ty::Set, Ty::Str)]);
                    self.gen(ct, d, out);
                    self.closure_arg(out, et, d);
                    out.push(Op::Binary(if self.rng.gen() { Binary::All } else { Binary::Any }));
                }
                _ => {
                    let t = self.lit(Ty::Bool, 0);
                    out.push(Op::Value(t))
                }
            },
            t => {
                let v = self.lit(t, 2);
                out.push(Op::Value(v))
            }
        }
    }
}

fn random_op(rng: &mut StdRng, d: u32) -> Op {
    let vs = value_set();
    match rng.gen_range(0..10) {
        0..=4 => Op::Value(pick(rng, &vs).clone()),
        5 => Op::Unary(pick(rng, &[Unary::Negate, Unary::Parens, Unary::Length, Unary::TypeOf, Unary::Ffi(0), Unary::Ffi(5000)]).clone()),
        6..=8 => {
            if rng.gen_range(0..30) == 0 {
                Op::Binary(Binary::Ffi(*pick(rng, &[0u64, 1024, 9999])))
            } else {
                Op::Binary(pick(rng, &BINARIES).clone())
            }
        }
        _ => {
            if d == 0 {
                Op::Closure(vec![], vec![Op::Value(Term::Bool(true))])
            } else {
                let n = rng.gen_range(0..4);
                let params: Vec<u32> = (0..rng.gen_range(0..3)).map(|_| rng.gen_range(5..10)).collect();
                Op::Closure(params, (0..n).map(|_| random_op(rng, d - 1)).collect())
            }
        }
    }
}

pub fn run(opts: &Opts) {
    let mut sink = Sink::new(opts, "expr");
    let symbols = base_table();
    let mut stats: BTreeMap<String, u64> = BTreeMap::new();
    let mut emit = |sink: &mut Sink, case: Value, class: &str| {
        let out = run_case(&case);
        let k = if out.get("ok").is_some() {
            "ok".to_string()
        } else if let Some(e) = out.get("err") {
            format!("err:{}", e.as_str().unwrap())
        } else {
            "PANIC".to_string()
        };
        *stats.entry(format!("{class}/{k}")).or_insert(0) += 1;
        sink.put(&case, &out);
    };

    if let Some(path) = &opts.replay {
        for case in read_cases(path) {
            emit(&mut sink, case, "replay");
        }
        sink.finish();
        return;
    }

    // corpus first
    for case in read_cases("corpus/expr.jsonl") {
        emit(&mut sink, case, "corpus");
    }

    // exhaustive operator tables over the representative value set
    let vs = value_set();
    let mut vals = HashMap::new();
    vals.insert(8u32, Term::Integer(5));
    let mut bins: Vec<Binary> = BINARIES.to_vec();
    bins.push(Binary::Ffi(0));
    bins.push(Binary::Ffi(99999));
    for b in bins.iter() {
        for l in vs.iter() {
            for r in vs.iter() {
                let ops = vec![Op::Value(l.clone()), Op::Value(r.clone()), Op::Binary(b.clone())];
                emit(&mut sink, make_case(&symbols, &vals, &ops), "table2");
            }
        }
    }
    for u in [Unary::Negate, Unary::Parens, Unary::Length, Unary::TypeOf, Unary::Ffi(1), Unary::Ffi(99999)].iter() {
        for v in vs.iter() {
            let ops = vec![Op::Value(v.clone()), Op::Unary(u.clone())];
            emit(&mut sink, make_case(&symbols, &vals, &ops), "table1");
        }
    }
    // binary operators with a closure on the right
    let bodies: Vec<(Vec<u32>, Vec<Op>)> = vec![
        (vec![], vec![Op::Value(Term::Bool(true))]),
        (vec![], vec![Op::Value(Term::Bool(false))]),
        (vec![], vec![Op::Value(Term::Integer(1))]),
        (vec![], vec![Op::Value(Term::Integer(1)), Op::Value(Term::Integer(0)), Op::Binary(Binary::Div)]),
        (vec![3], vec![Op::Value(Term::Bool(true))]),
        (vec![3], vec![Op::Value(Term::Bool(false))]),
        (vec![3], vec![Op::Value(Term::Variable(3)), Op::Value(Term::Integer(1)), Op::Binary(Binary::HeterogeneousEqual)]),
        (vec![3], vec![Op::Value(Term::Variable(3)), Op::Value(Term::Integer(1)), Op::Binary(Binary::GreaterThan)]),
        (vec![3], vec![Op::Value(Term::Variable(3))]),
        (vec![3], vec![Op::Value(Term::Variable(3)), Op::Value(Term::Integer(1)), Op::Binary(Binary::Get), Op::Value(Term::Null), Op::Binary(Binary::HeterogeneousEqual)]),
        (vec![8], vec![Op::Value(Term::Bool(true))]),
        (vec![3, 4], vec![Op::Value(Term::Bool(true))]),
        (vec![3], vec![]),
    ];
    for b in bins.iter() {
        for l in vs.iter() {
            for (params, body) in bodies.iter() {
                let ops = vec![Op::Value(l.clone()), Op::Closure(params.clone(), body.clone()), Op::Binary(b.clone())];
                emit(&mut sink, make_case(&symbols, &vals, &ops), "tableclo");
            }
        }
    }

    // strings built during evaluation: equal to a string of the table, to a default symbol ("re" + "ad"), to themselves
    {
        let s = |t: &str| Term::Str(1024 + USER_SYMBOLS.iter().position(|x| *x == t).unwrap() as u64);
        let pairs: Vec<(Term, Term, Term)> = vec![
            (s("re"), s("ad"), Term::Str(0)),
            (s("us"), s("er"), Term::Str(10)),
            (s(""), Term::Str(0), Term::Str(0)),
            (Term::Str(0), s(""), Term::Str(0)),
            (s("a"), s("b"), s("ab")),
            (s("he"), s("llo"), s("hello")),
            (s("ab"), s("ab"), s("abab")),
            (s("re"), s("a"), Term::Str(0)),
        ];
        for (l, r, whole) in pairs.iter() {
            for b in [Binary::Equal, Binary::HeterogeneousEqual, Binary::NotEqual, Binary::HeterogeneousNotEqual, Binary::Contains, Binary::Prefix] {
                let cat = vec![Op::Value(l.clone()), Op::Value(r.clone()), Op::Binary(Binary::Add)];
                let mut ops = cat.clone();
                ops.push(Op::Value(whole.clone()));
                ops.push(Op::Binary(b.clone()));
                emit(&mut sink, make_case(&symbols, &vals, &ops), "tableconcat");
                let mut ops = vec![Op::Value(whole.clone())];
                ops.extend(cat.clone());
                ops.push(Op::Binary(b.clone()));
                emit(&mut sink, make_case(&symbols, &vals, &ops), "tableconcat");
                let mut ops = cat.clone();
                ops.extend(cat.clone());
                ops.push(Op::Binary(b.clone()));
                emit(&mut sink, make_case(&symbols, &vals, &ops), "tableconcat");
                let mut ops = cat.clone();
                ops.push(Op::Unary(Unary::Length));
                emit(&mut sink, make_case(&symbols, &vals, &ops), "tableconcat");
            }
        }
    }
    // what is left of a closure's parameter after the closure: nothing (a later use is an unknown variable, a sibling
    // closure may take the same name), whether the iteration stopped early or ran to the end
    for b in [Binary::All, Binary::Any] {
        for l in vs.iter().filter(|v| matches!(v, Term::Set(_) | Term::Array(_) | Term::Map(_))) {
            for (params, body) in bodies.iter().filter(|(p, _)| p == &vec![3u32]) {
                let first = vec![Op::Value(l.clone()), Op::Closure(params.clone(), body.clone()), Op::Binary(b.clone())];
                let mut ops = first.clone();
                ops.extend([Op::Value(Term::Variable(3)), Op::Value(Term::Variable(3)), Op::Binary(Binary::HeterogeneousEqual), Op::Binary(Binary::And)]);
                emit(&mut sink, make_case(&symbols, &vals, &ops), "tablecloafter");
                let mut ops = first.clone();
                ops.extend(first.clone());
                ops.push(Op::Binary(Binary::Or));
                emit(&mut sink, make_case(&symbols, &vals, &ops), "tablecloafter");
                let mut ops = first.clone();
                ops.push(Op::Closure(vec![], first.clone()));
                ops.push(Op::Binary(Binary::LazyAnd));
                emit(&mut sink, make_case(&symbols, &vals, &ops), "tablecloafter");
            }
        }
    }
    // a unary operator applied to a closure (never well formed: the stack must be refused), before an operator
    // that would accept the closure
    let some_vs: Vec<Term> = vs.iter().step_by((vs.len() / 8).max(1)).cloned().collect();
    for u in [Unary::Negate, Unary::Parens, Unary::Length, Unary::TypeOf, Unary::Ffi(1), Unary::Ffi(99999)].iter() {
        for l in some_vs.iter().chain([Term::Bool(true), Term::Bool(false)].iter()) {
            for (params, body) in bodies.iter() {
                for b in [Binary::LazyAnd, Binary::LazyOr, Binary::All, Binary::Any, Binary::Equal].iter() {
                    let ops = vec![Op::Value(l.clone()), Op::Closure(params.clone(), body.clone()), Op::Unary(u.clone()), Op::Binary(b.clone())];
                    emit(&mut sink, make_case(&symbols, &vals, &ops), "tablecloun");
                }
                let ops = vec![Op::Closure(params.clone(), body.clone()), Op::Unary(u.clone())];
                emit(&mut sink, make_case(&symbols, &vals, &ops), "tablecloun");
            }
        }
    }

    // random typed expressions and malformed sequences
    let n = if opts.n > 0 { opts.n } else if opts.thorough { 200_000 } else { 6_000 };
    for i in 0..n {
        let mut rng = case_rng(opts.seed, 6, i as u64);
        let mut vals = HashMap::new();
        let mut env = vec![];
        for k in 0..rng.gen_range(0..4u32) {
            let ty = *pick(&mut rng, &TYS);
            let mut g = Gen { rng: &mut rng, env: vec![], next_var: 0, used_params: vec![], memo: vec![] };
            let v = g.lit(ty, 1);
            vals.insert(2000 + k, v);
            env.push((2000 + k, ty));
        }
        if i % 5 == 4 {
            let len = rng.gen_range(0..9);
            let ops: Vec<Op> = (0..len).map(|_| random_op(&mut rng, 2)).collect();
            emit(&mut sink, make_case(&symbols, &vals, &ops), "malformed");
        } else {
            let depth = rng.gen_range(1..6);
            let mut ops = vec![];
            let mut g = Gen { rng: &mut rng, env, next_var: 3000, used_params: vec![], memo: vec![] };
            let ty = if g.rng.gen_range(0..4) == 0 { *pick(g.rng, &TYS) } else { Ty::Bool };
            g.gen(ty, depth, &mut ops);
            emit(&mut sink, make_case(&symbols, &vals, &ops), "typed");
        }
    }
    let total = sink.count;
    sink.finish();
    let st = json!({"stream": "expr", "cases": total, "histogram": stats});
    std::fs::write(format!("{}/expr.stats.json", opts.out), st.to_string()).unwrap();
}
