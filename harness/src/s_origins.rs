//! stream `origins`: `TrustedOrigins::from_scopes` against `trustedFromScopes` of the model (C04, C05)
//!
//! A case is a list of scopes, the default origins, the current block (or the authorizer) and the
//! key -> blocks map; the outcome is the set of trusted origins.
use crate::common::*;
use biscuit_auth::datalog::{Origin, TrustedOrigins};
use biscuit_auth::format::convert::v2::proto_scope_to_token_scope;
use biscuit_auth::format::schema;
use rand::rngs::StdRng;
use rand::Rng;
use serde_json::{json, Value};
use std::collections::{BTreeMap, HashMap};

const AUTHORIZER: u64 = u64::MAX;

fn block_id(v: &Value) -> usize {
    let x = v.as_u64().unwrap();
    if x == AUTHORIZER { usize::MAX } else { x as usize }
}

pub fn run_case(case: &Value) -> Value {
    let r = std::panic::catch_unwind(|| {
        let scopes: Vec<_> = case["scopes"]
            .as_array()
            .unwrap()
            .iter()
            .map(|s| {
                let content = match s.as_str() {
                    Some("authority") => schema::scope::Content::ScopeType(schema::scope::ScopeType::Authority as i32),
                    Some("previous") => schema::scope::Content::ScopeType(schema::scope::ScopeType::Previous as i32),
                    _ => schema::scope::Content::PublicKey(s["key"].as_i64().unwrap()),
                };
                proto_scope_to_token_scope(&schema::Scope { content: Some(content) }).unwrap()
            })
            .collect();
        let default: TrustedOrigins = case["default"].as_array().unwrap().iter().map(block_id).collect();
        let current = block_id(&case["current"]);
        let mut km: HashMap<usize, Vec<usize>> = HashMap::new();
        for e in case["keys"].as_array().unwrap() {
            km.insert(e[0].as_u64().unwrap() as usize, e[1].as_array().unwrap().iter().map(block_id).collect());
        }
        let t = TrustedOrigins::from_scopes(&scopes, &default, current, &km);
        // membership of every block id a case can mention, and of the authorizer
        let mut ids: Vec<Value> = vec![];
        for i in (0..8usize).chain([usize::MAX]) {
            let mut o = Origin::default();
            o.insert(i);
            if t.contains(&o) {
                ids.push(if i == usize::MAX { json!(AUTHORIZER) } else { json!(i as u64) });
            }
        }
        json!({"trusted": ids})
    });
    match r {
        Ok(v) => v,
        Err(e) => json!({"panic": panic_msg(e)}),
    }
}

pub fn gen_case(rng: &mut StdRng) -> Value {
    let nblocks = rng.gen_range(1..6u64);
    let current = if rng.gen_range(0..4) == 0 { AUTHORIZER } else { rng.gen_range(0..nblocks) };
    let ns = *pick(rng, &[0usize, 0, 1, 1, 2, 2, 3, 4]);
    let scopes: Vec<Value> = (0..ns)
        .map(|_| match rng.gen_range(0..5) {
            0 => json!("authority"),
            1 | 2 => json!("previous"),
            _ => json!({"key": rng.gen_range(0..4)}),
        })
        .collect();
    // keys 0..3: each signs some blocks, before and after the current one
    let mut keys: Vec<Value> = vec![];
    for k in 0..3u64 {
        if rng.gen_range(0..4) > 0 {
            let bs: Vec<u64> = (1..nblocks).filter(|_| rng.gen_range(0..3) == 0).collect();
            keys.push(json!([k, bs]));
        }
    }
    let mut default: Vec<u64> = vec![];
    for b in 0..nblocks {
        if rng.gen_range(0..3) == 0 {
            default.push(b);
        }
    }
    if rng.gen() {
        default.push(AUTHORIZER);
    }
    if rng.gen_range(0..3) == 0 {
        default = vec![0, AUTHORIZER];
    }
    json!({"op": "origins", "scopes": scopes, "default": default, "current": current, "keys": keys})
}

pub fn run(opts: &Opts) {
    let mut sink = Sink::new(opts, "origins");
    let mut stats: BTreeMap<String, u64> = BTreeMap::new();
    let mut emit = |sink: &mut Sink, case: Value| {
        let out = run_case(&case);
        let k = if out.get("panic").is_some() { "PANIC".to_string() } else { format!("{} trusted", out["trusted"].as_array().map(|a| a.len()).unwrap_or(0).min(6)) };
        *stats.entry(format!("{} scopes/{}", case["scopes"].as_array().unwrap().len(), k)).or_insert(0) += 1;
        sink.put(&case, &out);
    };
    if let Some(path) = &opts.replay {
        for case in read_cases(path) {
            emit(&mut sink, case);
        }
        sink.finish();
        return;
    }
    for case in read_cases("corpus/origins.jsonl") {
        emit(&mut sink, case);
    }
    let n = if opts.n > 0 { opts.n } else if opts.thorough { 100_000 } else { 10_000 };
    for i in 0..n {
        let mut rng = case_rng(opts.seed, 28, i as u64);
        let case = gen_case(&mut rng);
        emit(&mut sink, case);
    }
    let total = sink.count;
    sink.finish();
    let st = json!({"stream": "origins", "cases": total, "histogram": stats});
    std::fs::write(format!("{}/origins.stats.json", opts.out), st.to_string()).unwrap();
}
