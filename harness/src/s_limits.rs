//! stream `limits`: budgets across sequences of calls on one authorizer (C10)
use crate::common::*;
use crate::prog::*;
use crate::s_authz;
use biscuit_auth::builder::{Expression, Fact, Op, Predicate, Rule, Term};
use biscuit_auth::datalog::ExternFunc;
use biscuit_auth::{AuthorizerLimits, Biscuit};
use rand::Rng;
use serde_json::{json, Value};
use std::cell::Cell;
use std::collections::BTreeMap;
use std::sync::Arc;
use std::time::Duration;

thread_local! {
    static TICKED: Cell<u64> = Cell::new(0);
}

fn tick_fn() -> ExternFunc {
    ExternFunc::new(Arc::new(|left, _right| {
        if let Term::Integer(n) = left {
            biscuit_auth::verif_clock::advance(Duration::from_millis(n as u64));
            TICKED.with(|t| t.set(t.get() + n as u64));
        }
        Ok(Term::Bool(true))
    }))
}

pub fn run_case(case: &Value, keys: &Keys) -> Value {
    let case = case.clone();
    let timed = case["time"].as_bool().unwrap_or(false);
    let r = std::panic::catch_unwind(std::panic::AssertUnwindSafe(|| {
        let pool = pool_of(&case);
        let blocks = case["blocks"].as_array().unwrap();
        let token = match build_token(blocks, &pool, keys) {
            Ok(t) => t,
            Err(e) => return json!({"calls": [json!({"r": "token-error", "kind": format!("{:?}", e)})]}),
        };
        let token = Biscuit::from(token.to_vec().unwrap(), keys.root.public()).unwrap();
        let ab = match authorizer_builder_of(&case["az"], &pool, keys) {
            Ok(ab) => ab,
            Err(e) => return json!({"calls": [json!({"r": "builder-error", "kind": format!("{:?}", e)})]}),
        };
        let lim = &case["limits"];
        let limits = AuthorizerLimits {
            max_facts: lim["f"].as_u64().unwrap(),
            max_iterations: lim["i"].as_u64().unwrap(),
            max_time: Duration::from_millis(lim["t"].as_u64().unwrap_or(3_600_000)),
        };
        if timed {
            biscuit_auth::verif_clock::install();
            TICKED.with(|t| t.set(0));
        }
        let ab = ab.limits(limits).register_extern_func("tick".to_string(), tick_fn());
        let mut az = match ab.build(&token) {
            Ok(a) => a,
            Err(e) => return json!({"calls": [token_err_j(&e)]}),
        };
        let mut outs = vec![];
        for c in case["calls"].as_array().unwrap() {
            let before = TICKED.with(|t| t.get());
            let mut o = if c.as_str() == Some("authorize") {
                authz_outcome_j(&az.authorize())
            } else if c.as_str() == Some("restore") {
                // the authorizer is replaced by what its snapshot restores: budgets spent so far must stay spent
                match az.to_raw_snapshot() {
                    Err(e) => json!({"r": "snapshot-error", "kind": format!("{:?}", e)}),
                    Ok(bytes) => match biscuit_auth::Authorizer::from_raw_snapshot(&bytes) {
                        Ok(a) => {
                            az = a;
                            json!({"r": "restored"})
                        }
                        Err(e) => json!({"r": "restore-error", "kind": format!("{:?}", e)}),
                    },
                }
            } else {
                let q = &c["query"];
                let rule: Rule = rule_b(&q["q"], &pool, keys);
                let r: Result<Vec<Fact>, _> = if q["all"].as_bool().unwrap() { az.query_all(rule) } else { az.query(rule) };
                match r {
                    Ok(fs) => {
                        let mut v: Vec<(String, Value)> = fs.iter().map(|f| { let j = bfact_out(f); (j.to_string(), j) }).collect();
                        v.sort_by(|a, b| a.0.cmp(&b.0));
                        v.dedup_by(|a, b| a.0 == b.0);
                        json!({"r": "answer", "facts": v.into_iter().map(|x| x.1).collect::<Vec<_>>()})
                    }
                    Err(e) => token_err_j(&e),
                }
            };
            o["iterations"] = json!(az.iterations());
            o["fact_count"] = json!(az.fact_count());
            if timed {
                o["ticked_before"] = json!(before);
                o["ticked_after"] = json!(TICKED.with(|t| t.get()));
                o["execution_time_ms"] = json!(az.execution_time().map(|d| d.as_millis() as u64));
            }
            outs.push(o);
        }
        json!({"calls": outs})
    }));
    if timed {
        biscuit_auth::verif_clock::uninstall();
    }
    match r {
        Ok(v) => v,
        Err(e) => json!({"panic": panic_msg(e)}),
    }
}

fn tick_expr(ms: i64) -> Expression {
    Expression { ops: vec![Op::Value(Term::Integer(ms)), Op::Unary(biscuit_auth::builder::Unary::Ffi("tick".to_string()))] }
}

fn gen_calls(rng: &mut rand::rngs::StdRng, keys: &Keys, pool: &mut Pool) -> Vec<Value> {
    let n = rng.gen_range(1..5);
    (0..n)
        .map(|_| {
            if rng.gen_range(0..5) == 0 {
                json!("restore")
            } else if rng.gen_range(0..2) == 0 {
                json!("authorize")
            } else {
                let qs = gen_queries_j(rng, keys, pool);
                match qs.into_iter().next() {
                    Some(q) => json!({"query": q}),
                    None => json!("authorize"),
                }
            }
        })
        .collect()
}

pub fn run(opts: &Opts) {
    let mut sink = Sink::new(opts, "limits");
    let mut krng = case_rng(7, 7, 7);
    let keys = Keys::new(&mut krng);
    let mut stats: BTreeMap<String, u64> = BTreeMap::new();
    let mut emit = |sink: &mut Sink, case: Value, class: &str| -> Value {
        let out = run_case(&case, &keys);
        let k: Vec<String> = out
            .get("calls")
            .and_then(|c| c.as_array())
            .map(|c| c.iter().map(|o| o.get("r").and_then(|x| x.as_str()).unwrap_or("?").to_string()).collect())
            .unwrap_or_else(|| vec!["PANIC".to_string()]);
        *stats.entry(format!("{class}/{}", k.join(","))).or_insert(0) += 1;
        sink.put(&case, &out);
        out
    };
    if let Some(path) = &opts.replay {
        for case in read_cases(path) {
            emit(&mut sink, case, "replay");
        }
        sink.finish();
        return;
    }
    for case in read_cases("corpus/limits.jsonl") {
        emit(&mut sink, case, "corpus");
    }
    let n = if opts.n > 0 { opts.n } else if opts.thorough { 12_000 } else { 500 };
    for i in 0..n {
        let mut rng = case_rng(opts.seed, 10, i as u64);
        let o = GenOpts { err_rate: if i % 7 == 0 { 6 } else { 0 }, max_blocks: 3 };
        let mut case = s_authz::gen_case(&mut rng, &keys, &o);
        case["op"] = json!("limits");
        let mut pool = Pool::default();
        for s in pool_of(&case) {
            pool.get(&s);
        }
        let calls = gen_calls(&mut rng, &keys, &mut pool);
        case["calls"] = json!(calls);
        case["pool"] = json!(pool.strs);
        case["queries"] = json!([]);
        case["limits"] = json!({"f": 1000, "i": 100});
        // measure what the program needs with a generous budget
        let probe = emit(&mut sink, case.clone(), "generous");
        let first = &probe["calls"][0];
        let (it, nf) = (first["iterations"].as_u64().unwrap_or(0), first["fact_count"].as_u64().unwrap_or(0));
        let initial = case["blocks"].as_array().unwrap().iter().map(|b| b["facts"].as_array().unwrap().len() as u64).sum::<u64>()
            + case["az"]["facts"].as_array().unwrap().len() as u64;
        for _ in 0..3 {
            let mut c2 = case.clone();
            let (f, it2) = match rng.gen_range(0..3) {
                0 => (1000, *pick(&mut rng, &[0, 1, it.saturating_sub(1), it, it + 1])),
                1 => (*pick(&mut rng, &[0, 1, initial.saturating_sub(1), initial, initial + 1, nf.saturating_sub(1), nf, nf + 1]), 100),
                _ => (*pick(&mut rng, &[initial, nf.saturating_sub(1), nf, nf + 1]), *pick(&mut rng, &[1, it, it + 1])),
            };
            c2["limits"] = json!({"f": f, "i": it2});
            emit(&mut sink, c2, "boundary");
        }
        // time: the same program with clock ticks in a rule and in a check, under the fake clock
        if i % 4 == 0 {
            let mut c3 = case.clone();
            let mut pool = Pool::default();
            for s in pool_of(&c3) {
                pool.get(&s);
            }
            // two seconds as well: a budget above one second tells whole seconds from the fraction
            let budget: i64 = *pick(&mut rng, &[1000i64, 1000, 2000]);
            let rt = *pick(&mut rng, &[0i64, 200, 400, 600, 1100]);
            let ct = *pick(&mut rng, &[0i64, 200, 500, 700, 1100]);
            let qt = *pick(&mut rng, &[0i64, 300, 600]);
            let tr = Rule::new(
                Predicate { name: "ticked".into(), terms: vec![Term::Integer(1)] },
                vec![],
                vec![tick_expr(rt)],
                vec![],
            );
            c3["az"]["rules"].as_array_mut().unwrap().push(rule_j(&tr, &mut pool, &keys));
            let tc = Rule::new(Predicate { name: "query".into(), terms: vec![] }, vec![], vec![tick_expr(ct)], vec![]);
            c3["az"]["checks"].as_array_mut().unwrap().push(json!({"k": "one", "q": [rule_j(&tc, &mut pool, &keys)]}));
            // and in a check of the last appended block (checks of blocks after the authority block are a loop of
            // their own in authorize)
            let nb = c3["blocks"].as_array().unwrap().len();
            if nb >= 2 {
                let bt = *pick(&mut rng, &[0i64, 300, 700, 1100]);
                let bc = Rule::new(Predicate { name: "query".into(), terms: vec![] }, vec![], vec![tick_expr(bt)], vec![]);
                let bcj = json!({"k": "one", "q": [rule_j(&bc, &mut pool, &keys)]});
                c3["blocks"][nb - 1]["checks"].as_array_mut().unwrap().push(bcj);
            }
            let tq = Rule::new(Predicate { name: "data".into(), terms: vec![] }, vec![], vec![tick_expr(qt)], vec![]);
            // a query that spends its time and then fails (division by zero after the tick): the time is spent all the same
            let div0 = Expression { ops: vec![Op::Value(Term::Integer(1)), Op::Value(Term::Integer(0)), Op::Binary(biscuit_auth::builder::Binary::Div),
                Op::Value(Term::Integer(0)), Op::Binary(biscuit_auth::builder::Binary::GreaterThan)] };
            let tqf = Rule::new(Predicate { name: "data".into(), terms: vec![] }, vec![], vec![tick_expr(*pick(&mut rng, &[300i64, 600, 1100])), div0], vec![]);
            let mut calls: Vec<Value> = (0..rng.gen_range(1..4))
                .map(|_| match rng.gen_range(0..7) {
                    0 => json!({"query": {"all": true, "q": rule_j(&tq, &mut pool, &keys)}}),
                    1 => json!({"query": {"all": false, "q": rule_j(&tq, &mut pool, &keys)}}),
                    2 => json!({"query": {"all": false, "q": rule_j(&tqf, &mut pool, &keys)}}),
                    3 => json!({"query": {"all": true, "q": rule_j(&tqf, &mut pool, &keys)}}),
                    4 => json!("restore"),
                    _ => json!("authorize"),
                })
                .collect();
            calls.push(json!("authorize"));
            // the authorizer replaced by what its snapshot restores, then a query that needs no clock (external functions are
            // not part of a snapshot): time spent before the snapshot stays spent, whole seconds included
            if rng.gen_range(0..3) == 0 {
                let plain = Rule::new(Predicate { name: "data".into(), terms: vec![] }, vec![], vec![Expression { ops: vec![Op::Value(Term::Bool(true))] }], vec![]);
                calls.push(json!("restore"));
                calls.push(json!({"query": {"all": rng.gen::<bool>(), "q": rule_j(&plain, &mut pool, &keys)}}));
            }
            c3["calls"] = json!(calls);
            c3["pool"] = json!(pool.strs);
            c3["time"] = json!(true);
            c3["limits"] = json!({"f": 1000, "i": 100, "t": budget});
            emit(&mut sink, c3, "time");
        }
    }
    let total = sink.count;
    sink.finish();
    let st = json!({"stream": "limits", "cases": total, "histogram": stats});
    std::fs::write(format!("{}/limits.stats.json", opts.out), st.to_string()).unwrap();
}
