//! stream `determ`: the same token and authorizer contents built and authorized N times from
//! scratch (fresh hash seeds), with the authorizer's facts and rules inserted in permuted order
//! and through `clone()`; the set of distinct outcomes is the observation (C11)
use crate::common::*;
use crate::prog::*;
use crate::s_authz;
use biscuit_auth::Biscuit;
use rand::seq::SliceRandom;
use rand::Rng;
use serde_json::{json, Value};
use std::collections::BTreeMap;

fn outcome_key(o: &Value) -> String {
    // what C11 calls the outcome: acceptance, policy, failed checks, which error; query answers
    let mut k = json!({});
    for f in ["r", "p", "pk", "failed", "kind", "queries", "query_rows"] {
        if let Some(v) = o.get(f) {
            k[f] = v.clone();
        }
    }
    // how much evaluation a completed run took is part of what is reported (iterations(), fact_count()), and
    // decides on which side of a budget the same program falls
    if matches!(o.get("r").and_then(|x| x.as_str()), Some("ok") | Some("nomatch") | Some("unauth")) {
        for f in ["iterations", "fact_count"] {
            if let Some(v) = o.get(f) {
                k[f] = v.clone();
            }
        }
    }
    k.to_string()
}

pub fn run_case(case: &Value, keys: &Keys, n: usize, seed: u64) -> Value {
    let case = case.clone();
    let r = std::panic::catch_unwind(std::panic::AssertUnwindSafe(|| {
        let pool = pool_of(&case);
        let blocks = case["blocks"].as_array().unwrap();
        let token = match build_token(blocks, &pool, keys) {
            Ok(t) => t,
            Err(e) => return json!({"outcomes": [json!({"r": "token-error", "kind": format!("{:?}", e)})], "n": 1}),
        };
        let bytes = token.to_vec().unwrap();
        let mut seen: BTreeMap<String, Value> = BTreeMap::new();
        let mut rng = case_rng(seed, 11, 0);
        for k in 0..n {
            let mut c = case.clone();
            if k % 2 == 1 {
                // same contents, other insertion order
                c["az"]["facts"].as_array_mut().unwrap().shuffle(&mut rng);
                c["az"]["rules"].as_array_mut().unwrap().shuffle(&mut rng);
            }
            let t = if k % 3 == 2 { Biscuit::from(&bytes, keys.root.public()).unwrap() } else { token.clone() };
            let out = if k % 4 == 3 {
                // through clone(): build once, clone, authorize the clone
                let ab = authorizer_builder_of(&c["az"], &pool, keys).unwrap();
                match ab.limits(s_authz::limits_of(&c)).build(&t) {
                    Ok(a) => {
                        let mut a2 = a.clone();
                        let res = a2.authorize();
                        let mut o = authz_outcome_j(&res);
                        o["iterations"] = json!(a2.iterations());
                        o["fact_count"] = json!(a2.fact_count());
                        o["queries"] = s_authz::run_queries(&c, &pool, keys, &mut a2);
                        o["query_rows"] = s_authz::run_query_rows(&c, &pool, keys, &mut a2);
                        o
                    }
                    Err(e) => token_err_j(&e),
                }
            } else {
                s_authz::authorize_once(&c, &pool, keys, &t)
            };
            seen.entry(outcome_key(&out)).or_insert(out);
            let _ = rng.gen::<u8>();
        }
        json!({"outcomes": seen.values().cloned().collect::<Vec<_>>(), "n": n})
    }));
    match r {
        Ok(v) => v,
        Err(e) => json!({"panic": panic_msg(e)}),
    }
}

pub fn run(opts: &Opts) {
    let mut sink = Sink::new(opts, "determ");
    let mut krng = case_rng(7, 7, 7);
    let keys = Keys::new(&mut krng);
    let reps = if opts.thorough { 128 } else { 16 };
    let mut stats: BTreeMap<String, u64> = BTreeMap::new();
    let mut emit = |sink: &mut Sink, case: Value, class: &str, reps: usize| -> Value {
        let out = run_case(&case, &keys, reps, opts.seed);
        let k = out.get("outcomes").map(|o| o.as_array().unwrap().len()).unwrap_or(0);
        *stats.entry(format!("{class}/distinct_outcomes:{k}")).or_insert(0) += 1;
        sink.put(&case, &out);
        out
    };
    if let Some(path) = &opts.replay {
        for case in read_cases(path) {
            let _ = emit(&mut sink, case, "replay", 64);
        }
        sink.finish();
        return;
    }
    for case in read_cases("corpus/determ.jsonl") {
        let _ = emit(&mut sink, case, "corpus", 64);
    }
    // the same program with one string changed, one case after the other in this process: what one authorizer evaluated
    // must not leak into the next (the pattern of `.matches`, the strings of the symbol table sit at the same indices)
    for pat in ["file", "zzz", "1", "q", "ile1", "x", "file1", "f"] {
        let case = json!({"op": "determ", "pool": ["f", "x", "query", "file1", pat],
            "blocks": [{"checks": [], "ext": null, "facts": [{"n": 0, "t": [{"s": 3}]}], "rules": [], "sc": []}],
            "az": {"checks": [{"k": "one", "q": [{"b": [{"n": 0, "t": [{"v": 1}]}], "e": [[{"val": {"v": 1}}, {"val": {"s": 4}}, {"bin": "Regex"}]], "h": {"n": 2, "t": []}, "sc": []}]}],
                "facts": [], "policies": [{"k": "allow", "q": [{"b": [], "e": [[{"val": {"t": true}}]], "h": {"n": 2, "t": []}, "sc": []}]}], "rules": [], "sc": []},
            "limits": {"f": 1000, "i": 100}, "queries": []});
        let _ = emit(&mut sink, case, "sequence", reps);
    }
    let n = if opts.n > 0 { opts.n } else if opts.thorough { 3_000 } else { 300 };
    for i in 0..n {
        let mut rng = case_rng(opts.seed, 11, i as u64);
        let o = GenOpts { err_rate: if i % 2 == 0 { 3 } else { 0 }, max_blocks: 3 };
        let mut case = s_authz::gen_case(&mut rng, &keys, &o);
        case["op"] = json!("determ");
        if i % 3 == 0 {
            // a derivation that crosses rule groups (rules are grouped by what they trust): authority rule ->
            // authorizer rule -> authorizer rule, and authority rule -> rule of the last block; the number of passes
            // the fixpoint takes must not depend on the order in which the groups are visited
            use biscuit_auth::builder::{Predicate, Rule, Term};
            let mut pool = Pool::default();
            for s in pool_of(&case) {
                pool.get(&s);
            }
            let p = |n: &str, t: Term| Predicate { name: n.to_string(), terms: vec![t] };
            let r = |h: &str, b: &str| Rule::new(p(h, Term::Variable("x".into())), vec![p(b, Term::Variable("x".into()))], vec![], vec![]);
            case["blocks"][0]["facts"].as_array_mut().unwrap().push(pred_j(&p("chain_a", Term::Integer(1)), &mut pool));
            case["blocks"][0]["rules"].as_array_mut().unwrap().push(rule_j(&r("chain_b", "chain_a"), &mut pool, &keys));
            case["az"]["rules"].as_array_mut().unwrap().push(rule_j(&r("chain_c", "chain_b"), &mut pool, &keys));
            case["az"]["rules"].as_array_mut().unwrap().push(rule_j(&r("chain_d", "chain_c"), &mut pool, &keys));
            let nb = case["blocks"].as_array().unwrap().len();
            if nb >= 2 {
                case["blocks"][nb - 1]["rules"].as_array_mut().unwrap().push(rule_j(&r("chain_e", "chain_b"), &mut pool, &keys));
                case["blocks"][0]["rules"].as_array_mut().unwrap().push(rule_j(&r("chain_f", "chain_b"), &mut pool, &keys));
            }
            case["pool"] = json!(pool.strs);
        }
        let out = emit(&mut sink, case.clone(), "gen", reps);
        // the same program with budgets at the edge of what it needs: on which side it falls must not depend on
        // the build either
        let first = &out["outcomes"][0];
        if let (Some(it), Some(nf)) = (first.get("iterations").and_then(|x| x.as_u64()), first.get("fact_count").and_then(|x| x.as_u64())) {
            if matches!(first.get("r").and_then(|x| x.as_str()), Some("ok") | Some("nomatch") | Some("unauth")) && it >= 1 {
                for _ in 0..2 {
                    let mut c2 = case.clone();
                    let (f, i2) = if rng.gen() {
                        (1000, *pick(&mut rng, &[it.saturating_sub(1).max(1), it, it + 1]))
                    } else {
                        (*pick(&mut rng, &[nf.saturating_sub(1), nf, nf + 1, nf + 2]), 100)
                    };
                    c2["limits"] = json!({"f": f, "i": i2});
                    emit(&mut sink, c2, "boundary", reps);
                }
            }
        }
    }
    let total = sink.count;
    sink.finish();
    let st = json!({"stream": "determ", "cases": total, "repetitions": reps, "histogram": stats});
    std::fs::write(format!("{}/determ.stats.json", opts.out), st.to_string()).unwrap();
}
