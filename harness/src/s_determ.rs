//! stream `determ`: the same token and authorizer contents built and authorized N times from
//! scratch (fresh hash seeds), with the authorizer's facts and rules inserted in permuted order
//! and through `clone()`; the set of distinct outcomes is the observation (C11)
use crate::common::*;
use crate::prog::*;
use crate::s_authz;
use biscuit_auth::Biscuit;
use rand::seq::SliceRandom;
use rand::Rng;
use serde_json::{json, Value};
use std::collections::BTreeMap;

fn outcome_key(o: &Value) -> String {
    // what C11 calls the outcome: acceptance, policy, failed checks, which error; query answers
    let mut k = json!({});
    for f in ["r", "p", "pk", "failed", "kind", "queries"] {
        if let Some(v) = o.get(f) {
            k[f] = v.clone();
        }
    }
    k.to_string()
}

pub fn run_case(case: &Value, keys: &Keys, n: usize, seed: u64) -> Value {
    let case = case.clone();
    let r = std::panic::catch_unwind(std::panic::AssertUnwindSafe(|| {
        let pool = pool_of(&case);
        let blocks = case["blocks"].as_array().unwrap();
        let token = match build_token(blocks, &pool, keys) {
            Ok(t) => t,
            Err(e) => return json!({"outcomes": [json!({"r": "token-error", "kind": format!("{:?}", e)})], "n": 1}),
        };
        let bytes = token.to_vec().unwrap();
        let mut seen: BTreeMap<String, Value> = BTreeMap::new();
        let mut rng = case_rng(seed, 11, 0);
        for k in 0..n {
            let mut c = case.clone();
            if k % 2 == 1 {
                // same contents, other insertion order
                c["az"]["facts"].as_array_mut().unwrap().shuffle(&mut rng);
                c["az"]["rules"].as_array_mut().unwrap().shuffle(&mut rng);
            }
            let t = if k % 3 == 2 { Biscuit::from(&bytes, keys.root.public()).unwrap() } else { token.clone() };
            let out = if k % 4 == 3 {
                // through clone(): build once, clone, authorize the clone
                let ab = authorizer_builder_of(&c["az"], &pool, keys).unwrap();
                match ab.limits(s_authz::limits_of(&c)).build(&t) {
                    Ok(a) => {
                        let mut a2 = a.clone();
                        let res = a2.authorize();
                        let mut o = authz_outcome_j(&res);
                        o["queries"] = s_authz::run_queries(&c, &pool, keys, &mut a2);
                        o
                    }
                    Err(e) => token_err_j(&e),
                }
            } else {
                s_authz::authorize_once(&c, &pool, keys, &t)
            };
            seen.entry(outcome_key(&out)).or_insert(out);
            let _ = rng.gen::<u8>();
        }
        json!({"outcomes": seen.values().cloned().collect::<Vec<_>>(), "n": n})
    }));
    match r {
        Ok(v) => v,
        Err(e) => json!({"panic": panic_msg(e)}),
    }
}

pub fn run(opts: &Opts) {
    let mut sink = Sink::new(opts, "determ");
    let mut krng = case_rng(7, 7, 7);
    let keys = Keys::new(&mut krng);
    let reps = if opts.thorough { 128 } else { 16 };
    let mut stats: BTreeMap<String, u64> = BTreeMap::new();
    let mut emit = |sink: &mut Sink, case: Value, class: &str, reps: usize| {
        let out = run_case(&case, &keys, reps, opts.seed);
        let k = out.get("outcomes").map(|o| o.as_array().unwrap().len()).unwrap_or(0);
        *stats.entry(format!("{class}/distinct_outcomes:{k}")).or_insert(0) += 1;
        sink.put(&case, &out);
    };
    if let Some(path) = &opts.replay {
        for case in read_cases(path) {
            emit(&mut sink, case, "replay", 64);
        }
        sink.finish();
        return;
    }
    for case in read_cases("corpus/determ.jsonl") {
        emit(&mut sink, case, "corpus", 64);
    }
    let n = if opts.n > 0 { opts.n } else if opts.thorough { 3_000 } else { 300 };
    for i in 0..n {
        let mut rng = case_rng(opts.seed, 11, i as u64);
        let o = GenOpts { err_rate: if i % 2 == 0 { 3 } else { 0 }, max_blocks: 3 };
        let mut case = s_authz::gen_case(&mut rng, &keys, &o);
        case["op"] = json!("determ");
        emit(&mut sink, case, "gen", reps);
    }
    let total = sink.count;
    sink.finish();
    let st = json!({"stream": "determ", "cases": total, "repetitions": reps, "histogram": stats});
    std::fs::write(format!("{}/determ.stats.json", opts.out), st.to_string()).unwrap();
}
