//! stream `snapshot`: authorizer / builder snapshots and saved policies restore the same object (C13)
use crate::common::*;
use crate::prog::*;
use crate::s_authz;
use biscuit_auth::builder::AuthorizerBuilder;
use biscuit_auth::{Authorizer, AuthorizerLimits};
use rand::Rng;
use serde_json::{json, Value};
use std::collections::BTreeMap;
use std::time::Duration;

fn display_lines(a: &Authorizer) -> Vec<String> {
    // `Display` groups by origin and sorts facts and rules; rules of one origin are a set
    a.to_string().lines().map(|l| l.to_string()).collect()
}

fn outcome_of(case: &Value, pool: &[String], keys: &Keys, a: &mut Authorizer) -> Value {
    let res = a.authorize();
    let mut o = authz_outcome_j(&res);
    o["queries"] = s_authz::run_queries(case, pool, keys, a);
    o
}

pub fn run_case(case: &Value, keys: &Keys) -> Value {
    let case = case.clone();
    let r = std::panic::catch_unwind(std::panic::AssertUnwindSafe(|| {
        let pool = pool_of(&case);
        let blocks = case["blocks"].as_array().unwrap();
        let token = match build_token(blocks, &pool, keys) {
            Ok(t) => t,
            Err(e) => return json!({"r": "token-error", "kind": format!("{:?}", e)}),
        };
        let ab = match authorizer_builder_of(&case["az"], &pool, keys) {
            Ok(ab) => ab,
            Err(e) => return json!({"r": "builder-error", "kind": format!("{:?}", e)}),
        };
        let lim = AuthorizerLimits {
            max_facts: case["limits"]["f"].as_u64().unwrap(),
            max_iterations: case["limits"]["i"].as_u64().unwrap(),
            max_time: Duration::from_secs(3600),
        };
        let ab = ab.limits(lim);
        let mut out = json!({});
        // the builder itself
        match ab.to_raw_snapshot() {
            Ok(bytes) => match AuthorizerBuilder::from_raw_snapshot(&bytes) {
                Ok(ab2) => {
                    let mut l1: Vec<String> = ab.dump_code().lines().map(|l| l.to_string()).collect();
                    let mut l2: Vec<String> = ab2.dump_code().lines().map(|l| l.to_string()).collect();
                    l1.sort();
                    l2.sort();
                    out["builder_same_code"] = json!(l1 == l2);
                    if l1 != l2 {
                        out["builder_code"] = json!([l1, l2]);
                    }
                    let o1 = ab.clone().build(&token).map(|mut a| outcome_of(&case, &pool, keys, &mut a));
                    let o2 = ab2.build(&token).map(|mut a| outcome_of(&case, &pool, keys, &mut a));
                    out["builder_same_outcome"] = json!(o1.ok() == o2.ok());
                }
                Err(e) => {
                    out["builder_restore_error"] = json!(format!("{:?}", e).chars().take(150).collect::<String>());
                }
            },
            Err(e) => {
                out["builder_snapshot_error"] = json!(format!("{:?}", e).chars().take(150).collect::<String>());
            }
        }
        let mut a = match ab.clone().build(&token) {
            Ok(a) => a,
            Err(e) => {
                out["r"] = token_err_j(&e)["r"].clone();
                return out;
            }
        };
        match case["mode"].as_str().unwrap() {
            "before" => {}
            _ => {
                let _ = a.authorize();
            }
        }
        // saved policies
        if let Ok(p) = a.save() {
            match p.serialize().and_then(|b| Authorizer::from(&b)) {
                Ok(a2) => {
                    let code = |x: &Authorizer| {
                        let mut l: Vec<String> = x.dump_code().lines().map(|l| l.to_string()).filter(|l| !l.is_empty()).collect();
                        l.sort();
                        l
                    };
                    let unauth = ab.clone().build_unauthenticated().unwrap();
                    out["policies_same"] = json!(code(&unauth) == code(&a2));
                    if code(&unauth) != code(&a2) {
                        out["policies_code"] = json!([code(&unauth), code(&a2)]);
                    }
                }
                Err(e) => {
                    out["policies_restore_error"] = json!(format!("{:?}", e).chars().take(150).collect::<String>());
                }
            }
        }
        let snap = if case["encoding"] == "base64" {
            a.to_base64_snapshot().map(|s| s.into_bytes())
        } else {
            a.to_raw_snapshot()
        };
        let snap = match snap {
            Ok(s) => s,
            Err(e) => {
                out["snapshot_error"] = json!(format!("{:?}", e).chars().take(150).collect::<String>());
                return out;
            }
        };
        let restored = if case["encoding"] == "base64" {
            Authorizer::from_base64_snapshot(std::str::from_utf8(&snap).unwrap())
        } else {
            Authorizer::from_raw_snapshot(&snap)
        };
        match restored {
            Err(e) => {
                out["restore_error"] = json!(format!("{:?}", e).chars().take(150).collect::<String>());
            }
            Ok(mut b) => {
                let (d1, d2) = (display_lines(&a), display_lines(&b));
                out["same_display"] = json!(d1 == d2);
                if d1 != d2 {
                    let only1: Vec<&String> = d1.iter().filter(|l| !d2.contains(l)).take(6).collect();
                    let only2: Vec<&String> = d2.iter().filter(|l| !d1.contains(l)).take(6).collect();
                    out["display_diff"] = json!({"original_only": only1, "restored_only": only2});
                }
                out["same_limits"] = json!(a.limits() == b.limits());
                out["same_counters"] = json!(a.iterations() == b.iterations() && a.fact_count() == b.fact_count());
                let mut a2 = a.clone();
                let o1 = outcome_of(&case, &pool, keys, &mut a2);
                let o2 = outcome_of(&case, &pool, keys, &mut b);
                out["original"] = o1;
                out["restored"] = o2;
            }
        }
        out
    }));
    match r {
        Ok(v) => v,
        Err(e) => json!({"panic": panic_msg(e)}),
    }
}

pub fn run(opts: &Opts) {
    let mut sink = Sink::new(opts, "snapshot");
    let mut krng = case_rng(7, 7, 7);
    let keys = Keys::new(&mut krng);
    let mut stats: BTreeMap<String, u64> = BTreeMap::new();
    let mut emit = |sink: &mut Sink, case: Value| {
        let out = run_case(&case, &keys);
        let k = if out.get("restore_error").is_some() { "restore_error" } else if out.get("restored").is_some() { "restored" } else { "other" };
        *stats.entry(format!("{}/{}/{}", case["mode"].as_str().unwrap_or("?"), case["encoding"].as_str().unwrap_or("?"), k)).or_insert(0) += 1;
        if case["blocks"].as_array().unwrap().iter().any(|b| !b["ext"].is_null()) {
            *stats.entry("with_third_party".into()).or_insert(0) += 1;
        }
        sink.put(&case, &out);
    };
    if let Some(path) = &opts.replay {
        for case in read_cases(path) {
            emit(&mut sink, case);
        }
        sink.finish();
        return;
    }
    for case in read_cases("corpus/snapshot.jsonl") {
        emit(&mut sink, case);
    }
    let n = if opts.n > 0 { opts.n } else if opts.thorough { 12_000 } else { 600 };
    for i in 0..n {
        let mut rng = case_rng(opts.seed, 14, i as u64);
        let o = GenOpts { err_rate: if i % 5 == 0 { 6 } else { 0 }, max_blocks: 4 };
        let mut case = s_authz::gen_case(&mut rng, &keys, &o);
        case["op"] = json!("snapshot");
        case["mode"] = json!(*pick(&mut rng, &["before", "after", "after"]));
        case["encoding"] = json!(*pick(&mut rng, &["raw", "raw", "base64"]));
        if rng.gen_range(0..6) == 0 {
            // a run that fails on a limit, then the snapshot
            case["limits"] = json!({"f": rng.gen_range(1..6), "i": 100});
            case["mode"] = json!("after_failed");
        }
        emit(&mut sink, case);
    }
    let total = sink.count;
    sink.finish();
    let st = json!({"stream": "snapshot", "cases": total, "histogram": stats});
    std::fs::write(format!("{}/snapshot.stats.json", opts.out), st.to_string()).unwrap();
}
