use rand::rngs::StdRng;
use rand::{Rng, SeedableRng};
use serde_json::Value;
use std::fs::File;
use std::io::{BufRead, BufReader, BufWriter, Write};

pub struct Opts {
    pub seed: u64,
    pub n: usize,
    pub thorough: bool,
    pub out: String,
    pub replay: Option<String>,
}

impl Opts {
    pub fn parse(args: &[String]) -> Opts {
        let mut o = Opts {
            seed: 1,
            n: 0,
            thorough: false,
            out: ".".to_string(),
            replay: None,
        };
        let mut i = 0;
        while i < args.len() {
            match args[i].as_str() {
                "--seed" => {
                    o.seed = args[i + 1].parse().expect("seed");
                    i += 1;
                }
                "--n" => {
                    o.n = args[i + 1].parse().expect("n");
                    i += 1;
                }
                "--tier" => {
                    o.thorough = args[i + 1] == "thorough";
                    i += 1;
                }
                "--out" => {
                    o.out = args[i + 1].clone();
                    i += 1;
                }
                "--replay" => {
                    o.replay = Some(args[i + 1].clone());
                    i += 1;
                }
                x => panic!("unknown option {x}"),
            }
            i += 1;
        }
        o
    }
}

/// every random choice of case `index` derives from (seed, stream tag, index)
pub fn case_rng(seed: u64, tag: u64, index: u64) -> StdRng {
    let mut z = seed
        .wrapping_mul(0x9E3779B97F4A7C15)
        .wrapping_add(tag.wrapping_mul(0xBF58476D1CE4E5B9))
        .wrapping_add(index.wrapping_mul(0x94D049BB133111EB));
    z ^= z >> 31;
    StdRng::seed_from_u64(z)
}

pub struct Sink {
    cases: BufWriter<File>,
    outs: BufWriter<File>,
    pub count: usize,
}

impl Sink {
    pub fn new(opts: &Opts, stream: &str) -> Sink {
        std::fs::create_dir_all(&opts.out).unwrap();
        Sink {
            cases: BufWriter::new(File::create(format!("{}/{}.cases.jsonl", opts.out, stream)).unwrap()),
            outs: BufWriter::new(File::create(format!("{}/{}.impl.jsonl", opts.out, stream)).unwrap()),
            count: 0,
        }
    }
    pub fn put(&mut self, case: &Value, out: &Value) {
        writeln!(self.cases, "{}", case).unwrap();
        writeln!(self.outs, "{}", out).unwrap();
        self.count += 1;
    }
    pub fn finish(mut self) {
        self.cases.flush().unwrap();
        self.outs.flush().unwrap();
    }
}

/// cases of a replay / corpus file: one JSON case per line
pub fn read_cases(path: &str) -> Vec<Value> {
    let f = match File::open(path) {
        Ok(f) => f,
        Err(_) => return vec![],
    };
    BufReader::new(f)
        .lines()
        .filter_map(|l| l.ok())
        .filter(|l| !l.trim().is_empty())
        .filter_map(|l| serde_json::from_str::<Value>(&l).ok())
        .map(|v| if v.get("case").is_some() { v["case"].clone() } else { v })
        .collect()
}

pub fn pick<'a, T, R: Rng>(rng: &mut R, xs: &'a [T]) -> &'a T {
    &xs[rng.gen_range(0..xs.len())]
}

pub fn panic_msg(e: Box<dyn std::any::Any + Send>) -> String {
    if let Some(s) = e.downcast_ref::<&str>() {
        s.to_string()
    } else if let Some(s) = e.downcast_ref::<String>() {
        s.clone()
    } else {
        "panic".to_string()
    }
}
