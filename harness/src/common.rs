use rand::rngs::StdRng;
use rand::{Rng, SeedableRng};
use serde_json::Value;
use std::fs::File;
use std::io::{BufRead, BufReader, BufWriter, Write};

pub struct Opts {
    pub seed: u64,
    pub n: usize,
    pub thorough: bool,
    pub out: String,
    pub replay: Option<String>,
}

impl Opts {
    pub fn parse(args: &[String]) -> Opts {
        let mut o = Opts {
            seed: 1,
            n: 0,
            thorough: false,
            out: ".".to_string(),
            replay: None,
        };
        let mut i = 0;
        while i < args.len() {
            match args[i].as_str() {
                "--seed" => {
                    o.seed = args[i + 1].parse().expect("seed");
                    i += 1;
                }
                "--n" => {
                    o.n = args[i + 1].parse().expect("n");
                    i += 1;
                }
                "--tier" => {
                    o.thorough = args[i + 1] == "thorough";
                    i += 1;
                }
                "--out" => {
                    o.out = args[i + 1].clone();
                    i += 1;
                }
                "--replay" => {
                    o.replay = Some(args[i + 1].clone());
                    i += 1;
                }
                x => panic!("unknown option {x}"),
            }
            i += 1;
        }
        o
    }
}

/// every random choice of case `index` derives from (seed, stream tag, index)
pub fn case_rng(seed: u64, tag: u64, index: u64) -> StdRng {
    let mut z = seed
        .wrapping_mul(0x9E3779B97F4A7C15)
        .wrapping_add(tag.wrapping_mul(0xBF58476D1CE4E5B9))
        .wrapping_add(index.wrapping_mul(0x94D049BB133111EB));
    z ^= z >> 31;
    StdRng::seed_from_u64(z)
}

pub struct Sink {
    cases: BufWriter<File>,
    outs: BufWriter<File>,
    pub count: usize,
}

impl Sink {
    pub fn new(opts: &Opts, stream: &str) -> Sink {
        std::fs::create_dir_all(&opts.out).unwrap();
        Sink {
            cases: BufWriter::new(File::create(format!("{}/{}.cases.jsonl", opts.out, stream)).unwrap()),
            outs: BufWriter::new(File::create(format!("{}/{}.impl.jsonl", opts.out, stream)).unwrap()),
            count: 0,
        }
    }
    pub fn put(&mut self, case: &Value, out: &Value) {
        writeln!(self.cases, "{}", case).unwrap();
        writeln!(self.outs, "{}", out).unwrap();
        self.count += 1;
    }
    pub fn finish(mut self) {
        self.cases.flush().unwrap();
        self.outs.flush().unwrap();
    }
}

/// cases of a replay / corpus file: one JSON case per line
pub fn read_cases(path: &str) -> Vec<Value> {
    let f = match File::open(path) {
        Ok(f) => f,
        Err(_) => return vec![],
    };
    BufReader::new(f)
        .lines()
        .filter_map(|l| l.ok())
        .filter(|l| !l.trim().is_empty())
        .filter_map(|l| serde_json::from_str::<Value>(&l).ok())
        .map(|v| if v.get("case").is_some() { v["case"].clone() } else { v })
        .collect()
}

pub fn pick<'a, T, R: Rng>(rng: &mut R, xs: &'a [T]) -> &'a T {
    &xs[rng.gen_range(0..xs.len())]
}

pub fn panic_msg(e: Box<dyn std::any::Any + Send>) -> String {
    if let Some(s) = e.downcast_ref::<&str>() {
        s.to_string()
    } else if let Some(s) = e.downcast_ref::<String>() {
        s.clone()
    } else {
        "panic".to_string()
    }
}

// ---------------------------------------------------------------- child-process isolation
/// child side: runs the cases from index `opts.n` on, one flushed outcome line per case
pub fn child_loop<F: FnMut(&Value) -> Value>(opts: &Opts, stream: &str, cases: &[Value], mut run_case: F) {
    let mut f = std::fs::OpenOptions::new().create(true).append(true).open(format!("{}/{}.part.jsonl", opts.out, stream)).unwrap();
    for case in cases.iter().skip(opts.n) {
        let out = run_case(case);
        writeln!(f, "{}", out).unwrap();
        f.flush().unwrap();
    }
}

/// child side: notes what is about to run, so that the parent can say where the child died
pub fn note_progress(out: &str, stream: &str, what: &str) {
    let _ = std::fs::write(format!("{}/{}.progress", out, stream), what);
}

/// parent side: runs `vh <stream>-child` over the cases; when the child dies (abort, stack overflow) or makes no
/// progress for 120 s (hang), the case it was on gets the outcome `{"abort": ...}` and a new child continues
pub fn run_in_children(opts: &Opts, stream: &str, cases: &[Value]) -> Vec<Value> {
    use std::time::Duration;
    std::fs::create_dir_all(&opts.out).unwrap();
    let todo = format!("{}/{}.todo.jsonl", opts.out, stream);
    std::fs::write(&todo, cases.iter().map(|c| c.to_string()).collect::<Vec<_>>().join("\n") + "\n").unwrap();
    let part = format!("{}/{}.part.jsonl", opts.out, stream);
    let _ = std::fs::remove_file(&part);
    let exe = std::env::current_exe().unwrap();
    let mut outs: Vec<Value> = vec![];
    let count_lines = |p: &str| std::fs::read_to_string(p).map(|s| s.lines().count()).unwrap_or(0);
    while outs.len() < cases.len() {
        let start = outs.len();
        let _ = std::fs::remove_file(&part);
        let mut ch = std::process::Command::new(&exe)
            .args([&format!("{stream}-child"), "--replay", &todo, "--n", &start.to_string(), "--out", &opts.out])
            .stdout(std::process::Stdio::null())
            .stderr(std::process::Stdio::null())
            .spawn()
            .unwrap();
        let mut last = 0usize;
        let mut idle = 0u32;
        let status = loop {
            match ch.try_wait().unwrap() {
                Some(s) => break Some(s),
                None => {
                    std::thread::sleep(Duration::from_millis(50));
                    let n = count_lines(&part);
                    if n == last {
                        idle += 1;
                    } else {
                        idle = 0;
                        last = n;
                    }
                    // 120 s without a finished case: on a machine loaded by other jobs a deep parse can take tens of seconds
                    if idle > 2400 {
                        let _ = ch.kill();
                        let _ = ch.wait();
                        break None;
                    }
                }
            }
        };
        let done: Vec<Value> = std::fs::read_to_string(&part).unwrap_or_default().lines().filter_map(|l| serde_json::from_str(l).ok()).collect();
        outs.extend(done);
        if outs.len() < cases.len() {
            let why = match status {
                None => "no progress for 120 s (hang)".to_string(),
                Some(s) => {
                    use std::os::unix::process::ExitStatusExt;
                    match s.signal() {
                        Some(sig) => format!("killed by signal {sig}"),
                        None => format!("exit status {:?}", s.code()),
                    }
                }
            };
            let at = std::fs::read_to_string(format!("{}/{}.progress", opts.out, stream)).unwrap_or_default();
            outs.push(serde_json::json!({"abort": why, "at": at}));
            let _ = std::fs::remove_file(format!("{}/{}.progress", opts.out, stream));
        }
    }
    let _ = std::fs::remove_file(&part);
    let _ = std::fs::remove_file(&todo);
    outs.truncate(cases.len());
    outs
}
