//! stream `print`: printed Datalog parses back to the same program (C14)
//!
//! A case carries the program item itself (source-level AST as JSON, strings verbatim), so
//! that the Lean printer model renders the same item. The implementation prints the item,
//! parses the text back with the real parser and compares the two ASTs structurally.
use crate::common::*;
use crate::prog::Keys;
use biscuit_auth::builder::{
    AuthorizerBuilder, Binary, BiscuitBuilder, BlockBuilder, Check, CheckKind, Expression, Fact, MapKey, Op, Policy,
    PolicyKind, Predicate, Rule, Scope, Term, Unary,
};
use biscuit_auth::{Biscuit, PublicKey};
use rand::rngs::StdRng;
use rand::Rng;
use serde_json::{json, Value};
use std::collections::{BTreeMap, BTreeSet};
use std::convert::TryFrom;

// ------------------------------------------------------------------ AST <-> JSON
pub fn term_j(t: &Term) -> Value {
    match t {
        Term::Variable(v) => json!({"var": v}),
        Term::Integer(i) => json!({"int": i}),
        Term::Str(s) => json!({"str": s}),
        Term::Date(d) => json!({"date": d}),
        Term::Bytes(b) => json!({"bytes": hex::encode(b)}),
        Term::Bool(b) => json!({"bool": b}),
        Term::Null => json!({"null": true}),
        Term::Set(s) => json!({"set": s.iter().map(term_j).collect::<Vec<_>>()}),
        Term::Array(a) => json!({"arr": a.iter().map(term_j).collect::<Vec<_>>()}),
        Term::Map(m) => json!({"map": m.iter().map(|(k, v)| json!([key_j(k), term_j(v)])).collect::<Vec<_>>()}),
        Term::Parameter(p) => json!({"param": p}),
    }
}

pub(crate) fn key_j(k: &MapKey) -> Value {
    match k {
        MapKey::Integer(i) => json!({"int": i}),
        MapKey::Str(s) => json!({"str": s}),
        MapKey::Parameter(p) => json!({"param": p}),
    }
}

pub fn term_b(v: &Value) -> Term {
    if let Some(x) = v.get("var") {
        Term::Variable(x.as_str().unwrap().to_string())
    } else if let Some(x) = v.get("int") {
        Term::Integer(x.as_i64().unwrap())
    } else if let Some(x) = v.get("str") {
        Term::Str(x.as_str().unwrap().to_string())
    } else if let Some(x) = v.get("date") {
        Term::Date(x.as_u64().unwrap())
    } else if let Some(x) = v.get("bytes") {
        Term::Bytes(hex::decode(x.as_str().unwrap()).unwrap())
    } else if let Some(x) = v.get("bool") {
        Term::Bool(x.as_bool().unwrap())
    } else if v.get("null").is_some() {
        Term::Null
    } else if let Some(x) = v.get("set") {
        Term::Set(x.as_array().unwrap().iter().map(term_b).collect::<BTreeSet<_>>())
    } else if let Some(x) = v.get("arr") {
        Term::Array(x.as_array().unwrap().iter().map(term_b).collect())
    } else if let Some(x) = v.get("map") {
        Term::Map(x.as_array().unwrap().iter().map(|kv| (key_b(&kv[0]), term_b(&kv[1]))).collect::<BTreeMap<_, _>>())
    } else if let Some(x) = v.get("param") {
        Term::Parameter(x.as_str().unwrap().to_string())
    } else {
        panic!("bad term {v}")
    }
}

pub(crate) fn key_b(v: &Value) -> MapKey {
    if let Some(x) = v.get("int") {
        MapKey::Integer(x.as_i64().unwrap())
    } else if let Some(x) = v.get("str") {
        MapKey::Str(x.as_str().unwrap().to_string())
    } else {
        MapKey::Parameter(v["param"].as_str().unwrap().to_string())
    }
}

const BINARIES: [(&str, Binary); 28] = [
    ("lt", Binary::LessThan), ("gt", Binary::GreaterThan), ("le", Binary::LessOrEqual), ("ge", Binary::GreaterOrEqual),
    ("eq", Binary::Equal), ("contains", Binary::Contains), ("prefix", Binary::Prefix), ("suffix", Binary::Suffix),
    ("regex", Binary::Regex), ("add", Binary::Add), ("sub", Binary::Sub), ("mul", Binary::Mul), ("div", Binary::Div),
    ("and", Binary::And), ("or", Binary::Or), ("intersection", Binary::Intersection), ("union", Binary::Union),
    ("band", Binary::BitwiseAnd), ("bor", Binary::BitwiseOr), ("bxor", Binary::BitwiseXor), ("ne", Binary::NotEqual),
    ("heq", Binary::HeterogeneousEqual), ("hne", Binary::HeterogeneousNotEqual), ("lazyand", Binary::LazyAnd),
    ("lazyor", Binary::LazyOr), ("all", Binary::All), ("any", Binary::Any), ("get", Binary::Get),
];

pub(crate) fn op_j(op: &Op) -> Value {
    match op {
        Op::Value(t) => json!({"val": term_j(t)}),
        Op::Unary(u) => match u {
            Unary::Negate => json!({"un": "negate"}),
            Unary::Parens => json!({"un": "parens"}),
            Unary::Length => json!({"un": "length"}),
            Unary::TypeOf => json!({"un": "type"}),
            Unary::Ffi(n) => json!({"un": "ffi", "name": n}),
        },
        Op::Binary(Binary::Ffi(n)) => json!({"bin": "ffi", "name": n}),
        Op::Binary(b) => json!({"bin": BINARIES.iter().find(|(_, x)| x == b).unwrap().0}),
        Op::Closure(params, ops) => json!({"clo": params, "ops": ops.iter().map(op_j).collect::<Vec<_>>()}),
    }
}

pub(crate) fn op_b(v: &Value) -> Op {
    if let Some(t) = v.get("val") {
        Op::Value(term_b(t))
    } else if let Some(u) = v.get("un") {
        Op::Unary(match u.as_str().unwrap() {
            "negate" => Unary::Negate,
            "parens" => Unary::Parens,
            "length" => Unary::Length,
            "type" => Unary::TypeOf,
            _ => Unary::Ffi(v["name"].as_str().unwrap().to_string()),
        })
    } else if let Some(b) = v.get("bin") {
        let b = b.as_str().unwrap();
        if b == "ffi" {
            Op::Binary(Binary::Ffi(v["name"].as_str().unwrap().to_string()))
        } else {
            Op::Binary(BINARIES.iter().find(|(n, _)| *n == b).unwrap().1.clone())
        }
    } else {
        Op::Closure(
            v["clo"].as_array().unwrap().iter().map(|p| p.as_str().unwrap().to_string()).collect(),
            v["ops"].as_array().unwrap().iter().map(op_b).collect(),
        )
    }
}

pub(crate) fn expr_j(e: &Expression) -> Value {
    Value::Array(e.ops.iter().map(op_j).collect())
}

pub(crate) fn expr_b(v: &Value) -> Expression {
    Expression { ops: v.as_array().unwrap().iter().map(op_b).collect() }
}

pub(crate) fn pred_j(p: &Predicate) -> Value {
    json!({"name": p.name, "terms": p.terms.iter().map(term_j).collect::<Vec<_>>()})
}

pub(crate) fn pred_b(v: &Value) -> Predicate {
    Predicate { name: v["name"].as_str().unwrap().to_string(), terms: v["terms"].as_array().unwrap().iter().map(term_b).collect() }
}

pub(crate) fn scope_j(s: &Scope) -> Value {
    match s {
        Scope::Authority => json!({"authority": true}),
        Scope::Previous => json!({"previous": true}),
        Scope::PublicKey(k) => json!({"key": k.to_string()}),
        Scope::Parameter(p) => json!({"param": p}),
    }
}

pub(crate) fn scope_b(v: &Value) -> Scope {
    if v.get("authority").is_some() {
        Scope::Authority
    } else if v.get("previous").is_some() {
        Scope::Previous
    } else if let Some(k) = v.get("key") {
        Scope::PublicKey(k.as_str().unwrap().parse::<PublicKey>().unwrap())
    } else {
        Scope::Parameter(v["param"].as_str().unwrap().to_string())
    }
}

pub(crate) fn rule_j(r: &Rule) -> Value {
    json!({"head": pred_j(&r.head), "body": r.body.iter().map(pred_j).collect::<Vec<_>>(),
           "exprs": r.expressions.iter().map(expr_j).collect::<Vec<_>>(), "scopes": r.scopes.iter().map(scope_j).collect::<Vec<_>>()})
}

pub(crate) fn rule_b(v: &Value) -> Rule {
    Rule::new(
        pred_b(&v["head"]),
        v["body"].as_array().unwrap().iter().map(pred_b).collect(),
        v["exprs"].as_array().unwrap().iter().map(expr_b).collect(),
        v["scopes"].as_array().unwrap().iter().map(scope_b).collect(),
    )
}

pub(crate) fn check_j(c: &Check) -> Value {
    let kind = match c.kind {
        CheckKind::One => "one",
        CheckKind::All => "all",
        CheckKind::Reject => "reject",
    };
    json!({"kind": kind, "queries": c.queries.iter().map(rule_j).collect::<Vec<_>>()})
}

pub(crate) fn check_b(v: &Value) -> Check {
    Check {
        kind: match v["kind"].as_str().unwrap() {
            "one" => CheckKind::One,
            "all" => CheckKind::All,
            _ => CheckKind::Reject,
        },
        queries: v["queries"].as_array().unwrap().iter().map(rule_b).collect(),
    }
}

pub(crate) fn policy_j(p: &Policy) -> Value {
    json!({"kind": if p.kind == PolicyKind::Allow { "allow" } else { "deny" }, "queries": p.queries.iter().map(rule_j).collect::<Vec<_>>()})
}

pub(crate) fn policy_b(v: &Value) -> Policy {
    Policy {
        kind: if v["kind"] == "allow" { PolicyKind::Allow } else { PolicyKind::Deny },
        queries: v["queries"].as_array().unwrap().iter().map(rule_b).collect(),
    }
}

// ------------------------------------------------------------------ generators
const NASTY: [&str; 24] = [
    "", "a", "hello world", "\"", "\\", "x\", \"y", "\\\"", "a\\", "\\n", "line\nbreak", ";", "{p}", "$x", "// c", "/* c */",
    "h\u{e9}\u{4e16}", "\t", "' or 1", "\"); allow if true; //", "null", "hex:00", "\\\\", "\"\"", "\\\\\"",
];
const CHARS: [char; 19] = ['"', '\\', 'n', '\n', 'a', ' ', ',', ')', '}', ']', '\u{e9}', '\u{1F600}', '$', '{', ';', '\r', '\0', '\u{7f}', '\u{2028}'];

pub(crate) fn gen_str(rng: &mut StdRng) -> String {
    match rng.gen_range(0..6) {
        0 | 1 => (0..rng.gen_range(0..7)).map(|_| *pick(rng, &CHARS)).collect(),
        // any scalar value at all
        2 => (0..rng.gen_range(1..4)).filter_map(|_| char::from_u32(rng.gen_range(0..0x11_0000))).collect(),
        _ => pick(rng, &NASTY).to_string(),
    }
}

pub(crate) fn gen_scalar(rng: &mut StdRng, kind: u32) -> Term {
    match kind {
        0 => Term::Integer(*pick(rng, &[0i64, 1, -1, 42, 7, i64::MAX, i64::MIN, -1234567890123])),
        1 => Term::Str(gen_str(rng)),
        2 => Term::Date(*pick(rng, &[0u64, 1, 59, 86399, 86400, 951782400, 1575452801, 1709164800, 4102444800, 253402300799])),
        3 => Term::Bytes((0..rng.gen_range(1..4)).map(|_| rng.gen()).collect()),
        4 => Term::Bool(rng.gen()),
        _ => Term::Null,
    }
}

pub(crate) fn gen_term(rng: &mut StdRng, d: u32, allow_var: bool) -> Term {
    match rng.gen_range(0..if d == 0 { 8 } else { 11 }) {
        0 => gen_scalar(rng, 0),
        1 | 2 => gen_scalar(rng, 1),
        3 => gen_scalar(rng, 2),
        4 => gen_scalar(rng, 3),
        5 => gen_scalar(rng, 4),
        6 => gen_scalar(rng, 5),
        7 => {
            if allow_var { Term::Variable(format!("v{}", rng.gen_range(0..3))) } else { gen_scalar(rng, 1) }
        }
        8 => {
            // sets are homogeneous, hold no set and no variable
            // (the grammar has no arrays inside sets)
            let kind = rng.gen_range(0..7);
            let n = rng.gen_range(0..4);
            Term::Set(
                (0..n)
                    .map(|_| match kind {
                        6 => Term::Map([(MapKey::Str(gen_str(rng)), gen_scalar(rng, 0))].into_iter().collect()),
                        k => gen_scalar(rng, k),
                    })
                    .collect::<BTreeSet<_>>(),
            )
        }
        9 => Term::Array((0..rng.gen_range(0..4)).map(|_| gen_term(rng, d - 1, false)).collect()),
        _ => Term::Map(
            (0..rng.gen_range(0..4))
                .map(|_| {
                    let k = if rng.gen() { MapKey::Integer(*pick(rng, &[-2i64, 0, 3, i64::MIN])) } else { MapKey::Str(gen_str(rng)) };
                    (k, gen_term(rng, d - 1, false))
                })
                .collect::<BTreeMap<_, _>>(),
        ),
    }
}

/// expression trees; `loose` leaves out parentheses at random (the printed text is then
/// parsed first, and what the parser produced becomes the item under test)
enum E {
    Val(Term),
    Un(Unary, Box<E>),
    Bin(Binary, Box<E>, Box<E>),
    Clo(Binary, Box<E>, Vec<String>, Box<E>),
}

fn is_infix(e: &E) -> bool {
    match e {
        E::Bin(b, _, _) => !is_method(b),
        E::Clo(b, _, _, _) => matches!(b, Binary::LazyAnd | Binary::LazyOr),
        E::Un(Unary::Negate, _) => true,
        _ => false,
    }
}

fn is_method(b: &Binary) -> bool {
    matches!(b, Binary::Contains | Binary::Prefix | Binary::Suffix | Binary::Regex | Binary::Intersection | Binary::Union | Binary::Get | Binary::All | Binary::Any | Binary::Ffi(_))
}

fn paren(rng: &mut StdRng, loose: bool, e: E) -> E {
    if is_infix(&e) && !(loose && rng.gen()) { E::Un(Unary::Parens, Box::new(e)) } else { e }
}

/// the receiver of a method call: a date literal directly followed by `.` is not in the grammar
/// (the date token runs up to the next `,`, space or closing bracket)
fn receiver(rng: &mut StdRng, loose: bool, e: E) -> E {
    match e {
        E::Val(Term::Date(_)) if !(loose && rng.gen()) => E::Un(Unary::Parens, Box::new(e)),
        e => paren(rng, loose, e),
    }
}

fn gen_expr(rng: &mut StdRng, d: u32, loose: bool) -> E {
    if d == 0 || rng.gen_range(0..4) == 0 {
        return E::Val(gen_term(rng, 1, true));
    }
    let d = d - 1;
    match rng.gen_range(0..10) {
        0..=3 => {
            let b = pick(rng, &[Binary::LessThan, Binary::GreaterThan, Binary::LessOrEqual, Binary::GreaterOrEqual, Binary::Equal, Binary::NotEqual,
                Binary::HeterogeneousEqual, Binary::HeterogeneousNotEqual, Binary::Add, Binary::Sub, Binary::Mul, Binary::Div,
                Binary::BitwiseAnd, Binary::BitwiseOr, Binary::BitwiseXor]).clone();
            let l = gen_expr(rng, d, loose);
            let r = gen_expr(rng, d, loose);
            E::Bin(b, Box::new(paren(rng, loose, l)), Box::new(paren(rng, loose, r)))
        }
        4 => {
            let b = pick(rng, &[Binary::Contains, Binary::Prefix, Binary::Suffix, Binary::Regex, Binary::Intersection, Binary::Union, Binary::Get, Binary::Ffi("ext".into()), Binary::Ffi("a_b:c1".into())]).clone();
            let l = gen_expr(rng, d, loose);
            E::Bin(b, Box::new(receiver(rng, loose, l)), Box::new(gen_expr(rng, d, loose)))
        }
        5 => {
            let l = gen_expr(rng, d, loose);
            let r = gen_expr(rng, d, loose);
            E::Clo(if rng.gen() { Binary::LazyAnd } else { Binary::LazyOr }, Box::new(paren(rng, loose, l)), vec![], Box::new(paren(rng, loose, r)))
        }
        6 => {
            let l = gen_expr(rng, d, loose);
            E::Clo(if rng.gen() { Binary::All } else { Binary::Any }, Box::new(receiver(rng, loose, l)), vec![format!("p{}", rng.gen_range(0..2))], Box::new(gen_expr(rng, d, loose)))
        }
        7 => {
            let a = gen_expr(rng, d, loose);
            E::Un(Unary::Negate, Box::new(paren(rng, loose, a)))
        }
        8 => {
            let a = gen_expr(rng, d, loose);
            E::Un(pick(rng, &[Unary::Length, Unary::TypeOf, Unary::Ffi("ext".into())]).clone(), Box::new(receiver(rng, loose, a)))
        }
        _ => E::Un(Unary::Parens, Box::new(gen_expr(rng, d, loose))),
    }
}

fn opcodes(e: &E, out: &mut Vec<Op>) {
    match e {
        E::Val(t) => out.push(Op::Value(t.clone())),
        E::Un(u, a) => {
            opcodes(a, out);
            out.push(Op::Unary(u.clone()));
        }
        E::Bin(b, l, r) => {
            opcodes(l, out);
            opcodes(r, out);
            out.push(Op::Binary(b.clone()));
        }
        E::Clo(b, l, p, r) => {
            opcodes(l, out);
            let mut body = vec![];
            opcodes(r, &mut body);
            out.push(Op::Closure(p.clone(), body));
            out.push(Op::Binary(b.clone()));
        }
    }
}

pub(crate) fn gen_expression(rng: &mut StdRng, loose: bool) -> Expression {
    let mut ops = vec![];
    let d = rng.gen_range(1..4);
    opcodes(&gen_expr(rng, d, loose), &mut ops);
    Expression { ops }
}

pub(crate) fn gen_pred(rng: &mut StdRng, vars: bool) -> Predicate {
    Predicate { name: pick(rng, &["f", "resource", "a_b", "x1", "ns:pred", "Trusting", "trusting_level", "trusting", "check", "or_else", "allow"]).to_string(), terms: (0..rng.gen_range(1..4)).map(|_| gen_term(rng, 2, vars)).collect() }
}

fn gen_scopes(rng: &mut StdRng, keys: &Keys) -> Vec<Scope> {
    (0..*pick(rng, &[0usize, 0, 1, 2, 3]))
        .map(|_| match rng.gen_range(0..4) {
            0 => Scope::Authority,
            1 => Scope::Previous,
            _ => Scope::PublicKey(keys.ext[rng.gen_range(0..3)].public()),
        })
        .collect()
}

fn gen_body(rng: &mut StdRng, keys: &Keys, loose: bool) -> Rule {
    let nb = rng.gen_range(0..3);
    let body: Vec<Predicate> = (0..nb).map(|_| gen_pred(rng, true)).collect();
    let ne = if nb == 0 { rng.gen_range(1..3) } else { rng.gen_range(0..3) };
    Rule::new(Predicate { name: "query".into(), terms: vec![] }, body, (0..ne).map(|_| gen_expression(rng, loose)).collect(), gen_scopes(rng, keys))
}

pub(crate) fn gen_rule(rng: &mut StdRng, keys: &Keys, loose: bool) -> Rule {
    let mut body = gen_body(rng, keys, loose);
    if body.body.is_empty() {
        body.body.push(gen_pred(rng, true));
    }
    // heads need one term at least, and only variables bound in the body
    let mut terms: Vec<Term> = body.body[0].terms.iter().filter(|t| matches!(t, Term::Variable(_))).cloned().collect();
    if terms.is_empty() || rng.gen_range(0..3) == 0 {
        terms.push(gen_term(rng, 1, false));
    }
    // a rule's expressions may only use variables bound by its body
    if !body.expressions.is_empty() {
        body.body.push(Predicate { name: "bind".into(), terms: (0..3).map(|i| Term::Variable(format!("v{i}"))).collect() });
    }
    Rule::new(Predicate { name: "h".into(), terms }, body.body, body.expressions, body.scopes)
}

pub(crate) fn gen_check(rng: &mut StdRng, keys: &Keys, loose: bool) -> Check {
    let kind = pick(rng, &[CheckKind::One, CheckKind::All, CheckKind::Reject]).clone();
    let n = rng.gen_range(1..3);
    Check { kind, queries: (0..n).map(|_| gen_body(rng, keys, loose)).collect() }
}

pub(crate) fn gen_policy(rng: &mut StdRng, keys: &Keys, loose: bool) -> Policy {
    let n = rng.gen_range(1..3);
    Policy { kind: if rng.gen() { PolicyKind::Allow } else { PolicyKind::Deny }, queries: (0..n).map(|_| gen_body(rng, keys, loose)).collect() }
}

pub(crate) fn gen_item(rng: &mut StdRng, kind: &str, keys: &Keys, loose: bool) -> Value {
    match kind {
        "fact" => pred_j(&gen_pred(rng, false)),
        "rule" => rule_j(&gen_rule(rng, keys, loose)),
        "check" => check_j(&gen_check(rng, keys, loose)),
        "policy" => policy_j(&gen_policy(rng, keys, loose)),
        "block" => {
            let scopes = if rng.gen_range(0..3) == 0 { gen_scopes(rng, keys) } else { vec![] };
            json!({
                "scopes": scopes.iter().map(scope_j).collect::<Vec<_>>(),
                "facts": (0..rng.gen_range(0..3)).map(|_| pred_j(&gen_pred(rng, false))).collect::<Vec<_>>(),
                "rules": (0..rng.gen_range(0..2)).map(|_| rule_j(&gen_rule(rng, keys, loose))).collect::<Vec<_>>(),
                "checks": (0..rng.gen_range(0..3)).map(|_| check_j(&gen_check(rng, keys, loose))).collect::<Vec<_>>(),
            })
        }
        _ => json!({
            "facts": (0..rng.gen_range(0..3)).map(|_| pred_j(&gen_pred(rng, false))).collect::<Vec<_>>(),
            "rules": (0..rng.gen_range(0..2)).map(|_| rule_j(&gen_rule(rng, keys, loose))).collect::<Vec<_>>(),
            "checks": (0..rng.gen_range(0..2)).map(|_| check_j(&gen_check(rng, keys, loose))).collect::<Vec<_>>(),
            "policies": (0..rng.gen_range(1..3)).map(|_| policy_j(&gen_policy(rng, keys, loose))).collect::<Vec<_>>(),
        }),
    }
}

// ------------------------------------------------------------------ the round trip
fn same_rule(a: &Rule, b: &Rule) -> bool {
    a.head == b.head && a.body == b.body && a.expressions == b.expressions && a.scopes == b.scopes
}

fn same_check(a: &Check, b: &Check) -> bool {
    a.kind == b.kind && a.queries.len() == b.queries.len() && a.queries.iter().zip(b.queries.iter()).all(|(a, b)| same_rule(a, b))
}

fn same_policy(a: &Policy, b: &Policy) -> bool {
    a.kind == b.kind && a.queries.len() == b.queries.len() && a.queries.iter().zip(b.queries.iter()).all(|(a, b)| same_rule(a, b))
}

pub(crate) fn short<E: std::fmt::Debug>(e: E) -> String {
    format!("{:?}", e).chars().take(240).collect()
}

fn block_builder(item: &Value) -> BlockBuilder {
    let mut bb = BlockBuilder::new();
    for s in item["scopes"].as_array().unwrap() {
        bb = bb.scope(scope_b(s));
    }
    for f in item["facts"].as_array().unwrap() {
        let p = pred_b(f);
        bb = bb.fact(Fact::new(p.name, p.terms)).unwrap();
    }
    for r in item["rules"].as_array().unwrap() {
        bb = bb.rule(rule_b(r)).unwrap();
    }
    for c in item["checks"].as_array().unwrap() {
        bb = bb.check(check_b(c)).unwrap();
    }
    bb
}

pub(crate) fn block_text(item: &Value) -> String {
    block_builder(item).to_string()
}

pub(crate) fn authorizer_text(item: &Value) -> String {
    let mut ab = AuthorizerBuilder::new();
    for f in item["facts"].as_array().unwrap() {
        let p = pred_b(f);
        ab = ab.fact(Fact::new(p.name, p.terms)).unwrap();
    }
    for r in item["rules"].as_array().unwrap() {
        ab = ab.rule(rule_b(r)).unwrap();
    }
    for c in item["checks"].as_array().unwrap() {
        ab = ab.check(check_b(c)).unwrap();
    }
    for p in item["policies"].as_array().unwrap() {
        ab = ab.policy(policy_b(p)).unwrap();
    }
    ab.dump_code()
}

fn token_of(bb: BlockBuilder, keys: &Keys) -> Biscuit {
    // BiscuitBuilder::merge leaves the scopes behind: pass them on one by one
    let scopes = bb.scopes.clone();
    let mut b = BiscuitBuilder::new().merge(bb);
    for s in scopes {
        b = b.scope(s);
    }
    b.build(&keys.root).unwrap()
}

/// parse the printed item back; `Ok(item')` is the parsed item as JSON
fn reparse(kind: &str, text: &str) -> Result<Value, String> {
    match kind {
        "fact" => Fact::try_from(text).map(|f| pred_j(&f.predicate)).map_err(short),
        "rule" => Rule::try_from(text).map(|r| rule_j(&r)).map_err(short),
        "check" => Check::try_from(text).map(|c| check_j(&c)).map_err(short),
        "policy" => Policy::try_from(text).map(|p| policy_j(&p)).map_err(short),
        _ => Err("n/a".into()),
    }
}

/// the same item with every other scalar term (outside sets and map keys) replaced by a parameter `{bN}`, and the
/// terms the parameters stand for: binding them must print the item's own text
fn parametrise(v: &mut Value, binds: &mut Vec<(String, Value)>, count: &mut usize) {
    const SCALARS: [&str; 6] = ["int", "str", "date", "bytes", "bool", "null"];
    if let Some(o) = v.as_object() {
        if o.len() == 1 {
            let k = o.keys().next().unwrap().clone();
            if SCALARS.contains(&k.as_str()) {
                *count += 1;
                if *count % 2 == 1 {
                    let name = format!("b{}", binds.len());
                    binds.push((name.clone(), v.clone()));
                    *v = json!({"param": name});
                }
                return;
            }
            if k == "set" || k == "var" || k == "param" {
                return;
            }
            if k == "map" {
                for kv in v["map"].as_array_mut().unwrap() {
                    parametrise(&mut kv[1], binds, count);
                }
                return;
            }
        }
    }
    match v {
        Value::Array(a) => {
            for x in a.iter_mut() {
                parametrise(x, binds, count);
            }
        }
        Value::Object(o) => {
            for (k, x) in o.iter_mut() {
                if k == "name" || k == "kind" || k == "scopes" || k == "un" || k == "bin" {
                    continue;
                }
                parametrise(x, binds, count);
            }
        }
        _ => {}
    }
}

fn bound_text(kind: &str, item: &Value) -> Option<String> {
    let mut it = item.clone();
    let mut binds = vec![];
    let mut count = 0;
    parametrise(&mut it, &mut binds, &mut count);
    if binds.is_empty() {
        return None;
    }
    let r = std::panic::catch_unwind(std::panic::AssertUnwindSafe(|| match kind {
        "fact" => {
            let p = pred_b(&it);
            let mut f = Fact::new(p.name, p.terms);
            for (n, t) in binds.iter() {
                f.set(n, term_b(t)).map_err(short)?;
            }
            Ok::<String, String>(f.to_string())
        }
        "rule" => {
            let mut r = rule_b(&it);
            for (n, t) in binds.iter() {
                r.set(n, term_b(t)).map_err(short)?;
            }
            Ok(r.to_string())
        }
        "check" => {
            let mut c = check_b(&it);
            for (n, t) in binds.iter() {
                c.set(n, term_b(t)).map_err(short)?;
            }
            Ok(c.to_string())
        }
        _ => {
            let mut p = policy_b(&it);
            for (n, t) in binds.iter() {
                p.set(n, term_b(t)).map_err(short)?;
            }
            Ok(p.to_string())
        }
    }));
    Some(match r {
        Ok(Ok(t)) => t,
        Ok(Err(e)) => format!("ERR: {e}"),
        Err(e) => format!("PANIC: {}", panic_msg(e)),
    })
}

pub fn run_case(case: &Value, keys: &Keys) -> Value {
    let mut out = run_case_inner(case, keys);
    let kind = case["kind"].as_str().unwrap_or("");
    if ["fact", "rule", "check", "policy"].contains(&kind) && out.get("text").is_some() {
        if let Some(t) = bound_text(kind, &case["item"]) {
            out["bound_text"] = json!(t);
        }
    }
    out
}

fn run_case_inner(case: &Value, keys: &Keys) -> Value {
    let kind = case["kind"].as_str().unwrap().to_string();
    let item = case["item"].clone();
    let r = std::panic::catch_unwind(std::panic::AssertUnwindSafe(|| match kind.as_str() {
        "fact" => {
            let p = pred_b(&item);
            let f = Fact::new(p.name, p.terms);
            let text = f.to_string();
            match Fact::try_from(text.as_str()) {
                Ok(g) => json!({"text": text, "same": g.predicate == f.predicate, "reprinted": g.to_string()}),
                Err(e) => json!({"text": text, "parse_error": short(e)}),
            }
        }
        "rule" => {
            let r = rule_b(&item);
            let text = r.to_string();
            match Rule::try_from(text.as_str()) {
                Ok(g) => json!({"text": text, "same": same_rule(&g, &r), "reprinted": g.to_string()}),
                Err(e) => json!({"text": text, "parse_error": short(e)}),
            }
        }
        "check" => {
            let c = check_b(&item);
            let text = c.to_string();
            match Check::try_from(text.as_str()) {
                Ok(g) => json!({"text": text, "same": same_check(&g, &c), "reprinted": g.to_string()}),
                Err(e) => json!({"text": text, "parse_error": short(e)}),
            }
        }
        "policy" => {
            let p = policy_b(&item);
            let text = p.to_string();
            match Policy::try_from(text.as_str()) {
                Ok(g) => json!({"text": text, "same": same_policy(&g, &p), "reprinted": g.to_string()}),
                Err(e) => json!({"text": text, "parse_error": short(e)}),
            }
        }
        "block" => {
            // a token block printed by print_block_source (the SymbolTable printers), parsed by
            // BlockBuilder::code, built again; the BlockBuilder's own Display must give the same text
            let bb = block_builder(&item);
            let builder_text = bb.to_string();
            let t = token_of(bb, keys);
            let text = t.print_block_source(0).unwrap();
            let reload = Biscuit::from(t.to_vec().unwrap(), keys.root.public()).unwrap();
            let reloaded_text = reload.print_block_source(0).unwrap();
            // the same block appended to a token that already has symbols of its own, as a first-party and as a
            // third-party block (which carries its own symbol and key tables), printed through the verified and
            // the unverified token: every path must give the text above
            let mut paths = serde_json::Map::new();
            let base = BiscuitBuilder::new()
                .fact(Fact::new("user".to_string(), vec![Term::Str("alice".to_string())])).unwrap()
                .fact(Fact::new("resource".to_string(), vec![Term::Str("/folder/file1".to_string())])).unwrap()
                .build(&keys.root).unwrap();
            if let Ok(t1) = base.append(block_builder(&item)) {
                paths.insert("appended block, verified token".into(), json!(t1.print_block_source(1).unwrap_or_default()));
                if let Ok(u) = biscuit_auth::UnverifiedBiscuit::from(t1.to_vec().unwrap()) {
                    paths.insert("appended block, unverified token".into(), json!(u.print_block_source(1).unwrap_or_default()));
                }
            }
            if let Ok(tp) = base.third_party_request().and_then(|r| r.create_block(&keys.ext[0].private(), block_builder(&item))) {
                if let Ok(t3) = base.append_third_party(keys.ext[0].public(), tp) {
                    paths.insert("third-party block, verified token".into(), json!(t3.print_block_source(1).unwrap_or_default()));
                    if let Ok(u) = biscuit_auth::UnverifiedBiscuit::from(t3.to_vec().unwrap()) {
                        paths.insert("third-party block, unverified token".into(), json!(u.print_block_source(1).unwrap_or_default()));
                    }
                }
            }
            // after a block that already put a public key in the token's table (the ids of this block's keys are then
            // offsets into the token-wide table, not into the block's own list), and appended twice (the second copy
            // declares no key of its own)
            if let Ok(base2) = BiscuitBuilder::new()
                .code(&format!("user(\"alice\"); check if user($u) trusting {}", keys.ext[1].public()))
                .and_then(|b| b.build(&keys.root))
            {
                if let Ok(t1) = base2.append(block_builder(&item)) {
                    paths.insert("appended after a block with a key, verified token".into(), json!(t1.print_block_source(1).unwrap_or_default()));
                    if let Ok(u) = biscuit_auth::UnverifiedBiscuit::from(t1.to_vec().unwrap()) {
                        paths.insert("appended after a block with a key, unverified token".into(), json!(u.print_block_source(1).unwrap_or_default()));
                    }
                    if let Ok(t2) = t1.append(block_builder(&item)) {
                        paths.insert("appended twice, second copy, verified token".into(), json!(t2.print_block_source(2).unwrap_or_default()));
                        if let Ok(u) = biscuit_auth::UnverifiedBiscuit::from(t2.to_vec().unwrap()) {
                            paths.insert("appended twice, second copy, unverified token".into(), json!(u.print_block_source(2).unwrap_or_default()));
                        }
                    }
                }
            }
            let paths = Value::Object(paths);
            match BlockBuilder::new().code(&text) {
                Ok(bb2) => {
                    let t2 = token_of(bb2, keys);
                    let text2 = t2.print_block_source(0).unwrap();
                    // structural identity: same serialized block contents (symbols, facts, rules, checks, scopes)
                    let w1 = crate::s_chain::decode(&t.to_vec().unwrap()).unwrap().authority.block;
                    let w2 = crate::s_chain::decode(&t2.to_vec().unwrap()).unwrap().authority.block;
                    json!({"text": text, "same": w1 == w2, "reprinted": text2, "reloaded_same": reloaded_text == text, "builder_text": builder_text, "paths": paths})
                }
                Err(e) => json!({"text": text, "parse_error": short(e), "reloaded_same": reloaded_text == text, "builder_text": builder_text, "paths": paths}),
            }
        }
        _ => {
            let mut ab = AuthorizerBuilder::new();
            for f in item["facts"].as_array().unwrap() {
                let p = pred_b(f);
                ab = ab.fact(Fact::new(p.name, p.terms)).unwrap();
            }
            for r in item["rules"].as_array().unwrap() {
                ab = ab.rule(rule_b(r)).unwrap();
            }
            for c in item["checks"].as_array().unwrap() {
                ab = ab.check(check_b(c)).unwrap();
            }
            for p in item["policies"].as_array().unwrap() {
                ab = ab.policy(policy_b(p)).unwrap();
            }
            let text = ab.dump_code();
            match AuthorizerBuilder::new().code(&text) {
                Ok(ab2) => json!({"text": text, "same": ab2.to_raw_snapshot().ok() == ab.to_raw_snapshot().ok(), "reprinted": ab2.dump_code()}),
                Err(e) => json!({"text": text, "parse_error": short(e)}),
            }
        }
    }));
    match r {
        Ok(v) => v,
        Err(e) => json!({"panic": panic_msg(e)}),
    }
}

pub fn run(opts: &Opts) {
    let mut sink = Sink::new(opts, "print");
    let mut krng = case_rng(7, 7, 7);
    let keys = Keys::new(&mut krng);
    let mut stats: BTreeMap<String, u64> = BTreeMap::new();
    let mut emit = |sink: &mut Sink, case: Value| {
        let out = run_case(&case, &keys);
        let k = if out.get("parse_error").is_some() { "parse_error" } else if out["same"] == true { "same" } else if out.get("panic").is_some() { "PANIC" } else { "different" };
        *stats.entry(format!("{}/{}", case["kind"].as_str().unwrap(), k)).or_insert(0) += 1;
        sink.put(&case, &out);
    };
    if let Some(path) = &opts.replay {
        for case in read_cases(path) {
            emit(&mut sink, case);
        }
        sink.finish();
        return;
    }
    for case in read_cases("corpus/print.jsonl") {
        emit(&mut sink, case);
    }
    let n = if opts.n > 0 { opts.n } else if opts.thorough { 60_000 } else { 3_000 };
    let mut derived = 0u64;
    let mut underivable = 0u64;
    let mut with_params = 0u64;
    for i in 0..n {
        let kind = ["fact", "fact", "rule", "check", "policy", "block", "authorizer", "check"][i % 8];
        let mut rng = case_rng(opts.seed, 15, i as u64);
        // every third expression-bearing item leaves parentheses out at random: its printed text is
        // parsed first and the parser's own output is the item (an AST the grammar derives by construction)
        let loose = i % 3 == 2 && matches!(kind, "rule" | "check" | "policy");
        let mut item = gen_item(&mut rng, kind, &keys, loose);
        if loose {
            let text = match kind {
                "rule" => rule_b(&item).to_string(),
                "check" => check_b(&item).to_string(),
                _ => policy_b(&item).to_string(),
            };
            match std::panic::catch_unwind(|| reparse(kind, &text)) {
                // a `{true}` / `{null}` / `{hex:..}` set is read back as a parameter: known finding, seen on
                // the strict items; items with unbound parameters themselves belong to C20
                Ok(Ok(parsed)) if parsed.to_string().contains("\"param\"") => {
                    with_params += 1;
                    continue;
                }
                Ok(Ok(parsed)) => {
                    item = parsed;
                    derived += 1;
                }
                _ => {
                    underivable += 1;
                    continue;
                }
            }
        }
        emit(&mut sink, json!({"op": "print", "kind": kind, "loose": loose, "item": item}));
    }
    let total = sink.count;
    sink.finish();
    let st = json!({"stream": "print", "cases": total, "histogram": stats, "derived_by_parser": derived, "loose_text_rejected": underivable, "loose_text_with_parameters": with_params});
    std::fs::write(format!("{}/print.stats.json", opts.out), st.to_string()).unwrap();
}

/// probe: `kind<TAB>text` lines on stdin, the parse (Debug) and its reprint on stdout
pub fn parsetext() {
    use std::io::BufRead;
    for line in std::io::stdin().lock().lines() {
        let line = line.unwrap();
        let (kind, text) = line.split_once('\t').unwrap_or(("fact", &line));
        let text = text.replace("\\n", "\n");
        let r = std::panic::catch_unwind(|| match kind {
            "fact" => Fact::try_from(text.as_str()).map(|f| format!("{:?} => {}", f, f)).map_err(|e| format!("{:?}", e)),
            "rule" => Rule::try_from(text.as_str()).map(|f| format!("{:?} => {}", f, f)).map_err(|e| format!("{:?}", e)),
            "check" => Check::try_from(text.as_str()).map(|f| format!("{:?} => {}", f, f)).map_err(|e| format!("{:?}", e)),
            "policy" => Policy::try_from(text.as_str()).map(|f| format!("{:?} => {}", f, f)).map_err(|e| format!("{:?}", e)),
            _ => BlockBuilder::new().code(&text).map(|b| format!("{}", b)).map_err(|e| format!("{:?}", e)),
        });
        println!("{:?}", r);
    }
}
