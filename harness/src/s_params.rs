//! stream `params`: parameters are data, never code (C20)
//!
//! An item (fact, rule, check, policy) with `{name}` parameters in every kind of position is
//! built either through the builder constructors or by parsing its printed source; a sequence
//! of strict / lenient setters binds some of the parameters; the item is validated, added to a
//! builder and converted. Observed: the result of every setter, the validation verdict (and the
//! names reported), the verdict of fact()/rule()/check()/policy(), and the item obtained after
//! conversion (substituted AST), or a panic.
use crate::common::*;
use crate::prog::Keys;
use crate::s_print::*;
use biscuit_auth::builder::{AuthorizerBuilder, BlockBuilder, Check, Convert, Fact, Policy, Rule, Term};
use biscuit_auth::datalog::SymbolTable;
use biscuit_auth::{error, PublicKey};
use rand::rngs::StdRng;
use rand::Rng;
use serde_json::{json, Value};
use std::collections::BTreeMap;
use std::convert::TryFrom;

const TERM_KEYS: [&str; 11] = ["var", "int", "str", "date", "bytes", "bool", "null", "set", "arr", "map", "param"];

fn is_term(v: &Value) -> bool {
    v.as_object().map(|o| o.len() == 1 && TERM_KEYS.contains(&o.keys().next().unwrap().as_str())).unwrap_or(false)
}

/// replaces terms, map keys and scopes by parameters at random, at any depth
pub(crate) fn inject(v: &mut Value, rng: &mut StdRng, in_scope_list: bool) {
    if in_scope_list {
        if let Some(a) = v.as_array_mut() {
            for s in a.iter_mut() {
                if rng.gen_range(0..3) == 0 {
                    // a scope parameter lives in a namespace of its own: sometimes it shares its name with a term parameter
                    let name = if rng.gen_range(0..3) == 0 { format!("p{}", rng.gen_range(0..2)) } else { format!("s{}", rng.gen_range(0..2)) };
                    *s = json!({"param": name});
                }
            }
        }
        return;
    }
    if is_term(v) {
        if v.get("var").is_some() {
            return;
        }
        if rng.gen_range(0..5) == 0 {
            *v = json!({"param": format!("p{}", rng.gen_range(0..4))});
            return;
        }
        if let Some(set) = v.get_mut("set") {
            // sets are homogeneous for the parser: all parameters or none
            if rng.gen_range(0..5) == 0 {
                *set = Value::Array((0..rng.gen_range(1..3)).map(|i| json!({"param": format!("p{}", i)})).collect());
            }
            return;
        }
        if let Some(a) = v.get_mut("arr") {
            for t in a.as_array_mut().unwrap() {
                inject(t, rng, false);
            }
            return;
        }
        if let Some(m) = v.get_mut("map") {
            let mut used = vec![];
            for kv in m.as_array_mut().unwrap() {
                if rng.gen_range(0..3) == 0 {
                    // mostly names of their own, sometimes a name also used at a term position
                    let name = if rng.gen_range(0..4) == 0 { format!("p{}", rng.gen_range(0..4)) } else { format!("k{}", rng.gen_range(0..3)) };
                    if !used.contains(&name) {
                        used.push(name.clone());
                        kv[0] = json!({"param": name});
                    }
                }
                inject(&mut kv[1], rng, false);
            }
            return;
        }
        return;
    }
    match v {
        Value::Array(a) => {
            for x in a.iter_mut() {
                inject(x, rng, false);
            }
        }
        Value::Object(o) => {
            for (k, x) in o.iter_mut() {
                if k == "clo" || k == "name" || k == "kind" || k == "un" || k == "bin" {
                    continue;
                }
                inject(x, rng, k == "scopes");
            }
        }
        _ => {}
    }
}

pub(crate) fn collect_params(v: &Value, terms: &mut Vec<String>, scopes: &mut Vec<String>, in_scopes: bool) {
    match v {
        Value::Object(o) => {
            if o.len() == 1 {
                if let Some(Value::String(n)) = o.get("param") {
                    let l = if in_scopes { scopes } else { terms };
                    if !l.contains(n) {
                        l.push(n.clone());
                    }
                    return;
                }
            }
            for (k, x) in o {
                collect_params(x, terms, scopes, k == "scopes");
            }
        }
        Value::Array(a) => {
            for x in a {
                collect_params(x, terms, scopes, in_scopes);
            }
        }
        _ => {}
    }
}

pub(crate) fn amb_singleton(v: &Value) -> bool {
    match v {
        Value::Object(o) => {
            if let Some(Value::Array(a)) = o.get("set") {
                if a.len() == 1 && (a[0].get("bool").is_some() || a[0].get("null").is_some() || a[0].get("bytes").is_some()) {
                    return true;
                }
            }
            o.values().any(amb_singleton)
        }
        Value::Array(a) => a.iter().any(amb_singleton),
        _ => false,
    }
}

const SYNTAX: [&str; 12] = [
    "\"", "\\", "x\", \"y", "\"); allow if true; //", "{p0}", "$v0", ") <- f($x", "a\" or true or \"", "trusting previous", "\n", "hex:00", "\\\"",
];

pub(crate) fn gen_value(rng: &mut StdRng, for_key: bool) -> Term {
    if for_key && rng.gen_range(0..4) != 0 {
        return if rng.gen() { Term::Integer(rng.gen_range(-3..9)) } else { Term::Str(pick(rng, &SYNTAX).to_string()) };
    }
    match rng.gen_range(0..4) {
        0 => Term::Str(pick(rng, &SYNTAX).to_string()),
        _ => {
            // any ground term: no variable, no parameter
            let t = gen_term(rng, 2, false);
            t
        }
    }
}

fn missing_of(e: &error::Token) -> Value {
    match e {
        error::Token::Language(biscuit_parser::error::LanguageError::Parameters { missing_parameters, unused_parameters }) => {
            let mut m = missing_parameters.clone();
            m.sort();
            let mut u = unused_parameters.clone();
            u.sort();
            json!({"missing": m, "unused": u})
        }
        other => json!({"error": short(other)}),
    }
}

fn res_j(r: Result<(), error::Token>) -> Value {
    match r {
        Ok(()) => json!("ok"),
        Err(e) => missing_of(&e),
    }
}

enum Item {
    F(Fact),
    R(Rule),
    C(Check),
    P(Policy),
}

fn build_item(kind: &str, item: &Value, via: &str) -> Result<Item, String> {
    let it = match kind {
        "fact" => {
            let p = pred_b(item);
            Item::F(Fact::new(p.name, p.terms))
        }
        "rule" => Item::R(rule_b(item)),
        "check" => Item::C(check_b(item)),
        _ => Item::P(policy_b(item)),
    };
    if via == "new" {
        return Ok(it);
    }
    // through the printed source and the parser
    Ok(match it {
        Item::F(f) => Item::F(Fact::try_from(f.to_string().as_str()).map_err(short)?),
        Item::R(r) => Item::R(Rule::try_from(r.to_string().as_str()).map_err(short)?),
        Item::C(c) => Item::C(Check::try_from(c.to_string().as_str()).map_err(short)?),
        Item::P(p) => Item::P(Policy::try_from(p.to_string().as_str()).map_err(short)?),
    })
}

fn converted_rule(r: &Rule) -> Value {
    let mut syms = SymbolTable::new();
    let d = r.convert(&mut syms);
    match Rule::convert_from(&d, &syms) {
        Ok(back) => rule_j(&back),
        Err(e) => json!({"convert_from_error": short(e)}),
    }
}

pub fn run_case(case: &Value, _keys: &Keys) -> Value {
    let kind = case["kind"].as_str().unwrap().to_string();
    let via = case["via"].as_str().unwrap().to_string();
    let r = std::panic::catch_unwind(std::panic::AssertUnwindSafe(|| {
        let mut it = match build_item(&kind, &case["item"], &via) {
            Ok(it) => it,
            Err(e) => return json!({"text_rejected": e}),
        };
        let mut binds = vec![];
        for b in case["binds"].as_array().unwrap() {
            let name = b["name"].as_str().unwrap();
            let m = b["m"].as_str().unwrap();
            let r = if m.starts_with("set_scope") {
                let key: PublicKey = b["key"].as_str().unwrap().parse().unwrap();
                match (&mut it, m) {
                    (Item::F(_), _) => Ok(()),
                    (Item::R(r), "set_scope") => r.set_scope(name, key),
                    (Item::R(r), _) => r.set_scope_lenient(name, key),
                    (Item::C(c), "set_scope") => c.set_scope(name, key),
                    (Item::C(c), _) => c.set_scope_lenient(name, key),
                    (Item::P(p), "set_scope") => p.set_scope(name, key),
                    (Item::P(p), _) => p.set_scope_lenient(name, key),
                }
            } else {
                let v = term_b(&b["value"]);
                match (&mut it, m) {
                    (Item::F(f), "set") => f.set(name, v),
                    (Item::F(f), _) => f.set_lenient(name, v),
                    (Item::R(r), "set") => r.set(name, v),
                    (Item::R(r), _) => r.set_lenient(name, v),
                    (Item::C(c), "set") => c.set(name, v),
                    (Item::C(c), _) => c.set_lenient(name, v),
                    (Item::P(p), "set") => p.set(name, v),
                    (Item::P(p), _) => p.set_lenient(name, v),
                }
            };
            binds.push(res_j(r));
        }
        let validate = res_j(match &it {
            Item::F(f) => f.validate(),
            Item::R(r) => r.validate_parameters(),
            Item::C(c) => c.validate_parameters(),
            Item::P(p) => p.validate_parameters(),
        });
        let add = res_j(match &it {
            Item::F(f) => BlockBuilder::new().fact(f.clone()).map(|_| ()),
            Item::R(r) => BlockBuilder::new().rule(r.clone()).map(|_| ()),
            Item::C(c) => BlockBuilder::new().check(c.clone()).map(|_| ()),
            Item::P(p) => AuthorizerBuilder::new().policy(p.clone()).map(|_| ()),
        });
        let mut out = json!({"binds": binds, "validate": validate, "add": add});
        if add == "ok" {
            // conversion of an accepted item: must not panic, and gives the substituted item
            let conv = std::panic::catch_unwind(std::panic::AssertUnwindSafe(|| match &it {
                Item::F(f) => {
                    let mut syms = SymbolTable::new();
                    let d = f.convert(&mut syms);
                    match Fact::convert_from(&d, &syms) {
                        Ok(back) => pred_j(&back.predicate),
                        Err(e) => json!({"convert_from_error": short(e)}),
                    }
                }
                Item::R(r) => converted_rule(r),
                Item::C(c) => json!({"kind": check_j(c)["kind"], "queries": c.queries.iter().map(converted_rule).collect::<Vec<_>>()}),
                Item::P(p) => json!({"kind": policy_j(p)["kind"], "queries": p.queries.iter().map(converted_rule).collect::<Vec<_>>()}),
            }));
            match conv {
                Ok(v) => out["converted"] = v,
                Err(e) => out["convert_panic"] = json!(panic_msg(e)),
            }
        }
        out
    }));
    match r {
        Ok(v) => v,
        Err(e) => json!({"panic": panic_msg(e)}),
    }
}

pub fn run(opts: &Opts) {
    let mut sink = Sink::new(opts, "params");
    let mut krng = case_rng(7, 7, 7);
    let keys = Keys::new(&mut krng);
    let mut stats: BTreeMap<String, u64> = BTreeMap::new();
    let mut emit = |sink: &mut Sink, case: Value| {
        let out = run_case(&case, &keys);
        let k = if out.get("panic").is_some() {
            "PANIC"
        } else if out.get("text_rejected").is_some() {
            "text_rejected"
        } else if out.get("convert_panic").is_some() {
            "CONVERT_PANIC"
        } else if out["add"] == "ok" {
            "accepted"
        } else {
            "refused"
        };
        *stats.entry(format!("{}/{}/{}", case["kind"].as_str().unwrap(), case["via"].as_str().unwrap(), k)).or_insert(0) += 1;
        sink.put(&case, &out);
    };
    if let Some(path) = &opts.replay {
        for case in read_cases(path) {
            emit(&mut sink, case);
        }
        sink.finish();
        return;
    }
    for case in read_cases("corpus/params.jsonl") {
        emit(&mut sink, case);
    }
    let n = if opts.n > 0 { opts.n } else if opts.thorough { 60_000 } else { 3_000 };
    for i in 0..n {
        let kind = ["fact", "rule", "check", "policy", "rule", "check"][i % 6];
        let mut rng = case_rng(opts.seed, 20, i as u64);
        let mut item = gen_item(&mut rng, kind, &keys, false);
        inject(&mut item, &mut rng, false);
        let (mut tp, mut sp) = (vec![], vec![]);
        collect_params(&item, &mut tp, &mut sp, false);
        // which parameters are bound: all of them most of the time, a strict subset otherwise
        let all = rng.gen_range(0..4) != 0;
        let mut binds = vec![];
        let key_names: Vec<String> = tp.iter().filter(|n| n.starts_with('k')).cloned().collect();
        for name in tp.iter() {
            if !all && rng.gen() {
                continue;
            }
            let lenient = rng.gen_range(0..3) == 0;
            let keyish = key_names.contains(name) || rng.gen_range(0..3) == 0;
            let v = gen_value(&mut rng, keyish);
            binds.push(json!({"m": if lenient { "set_lenient" } else { "set" }, "name": name, "value": term_j(&v)}));
        }
        for name in sp.iter() {
            if !all && rng.gen() {
                continue;
            }
            let lenient = rng.gen_range(0..3) == 0;
            binds.push(json!({"m": if lenient { "set_scope_lenient" } else { "set_scope" }, "name": name, "key": keys.ext[rng.gen_range(0..3)].public().to_string()}));
        }
        // names the item does not have, through both kinds of setters; a rebind of a bound name
        if rng.gen_range(0..3) == 0 {
            let v = gen_value(&mut rng, false);
            let at = rng.gen_range(0..binds.len() + 1);
            binds.insert(at, json!({"m": if rng.gen() { "set" } else { "set_lenient" }, "name": "unknown", "value": term_j(&v)}));
        }
        if rng.gen_range(0..5) == 0 && kind != "fact" {
            binds.push(json!({"m": if rng.gen() { "set_scope" } else { "set_scope_lenient" }, "name": "nokey", "key": keys.ext[0].public().to_string()}));
        }
        if rng.gen_range(0..4) == 0 && !tp.is_empty() {
            let v = gen_value(&mut rng, true);
            binds.push(json!({"m": "set", "name": tp[rng.gen_range(0..tp.len())], "value": term_j(&v)}));
        }
        // (one-element sets of a boolean, null or bytes print like a parameter: C14's known finding, kept out of the text path)
        let via = if rng.gen() || amb_singleton(&item) { "new" } else { "text" };
        emit(&mut sink, json!({"op": "params", "kind": kind, "via": via, "item": item, "binds": binds}));
    }
    let total = sink.count;
    sink.finish();
    let st = json!({"stream": "params", "cases": total, "histogram": stats});
    std::fs::write(format!("{}/params.stats.json", opts.out), st.to_string()).unwrap();
}
