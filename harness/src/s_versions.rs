//! stream `versions`: declared Datalog version per feature, and the load gate for every
//! declared version 0..8 on correctly signed blocks (C16)
use crate::common::*;
use crate::prog::*;
use crate::s_chain::{decode, encode};
use biscuit_auth::builder::{
    Algorithm, BiscuitBuilder, Binary, Check, CheckKind, Expression, MapKey, Op, Predicate, Rule, Scope, Term, Unary,
};
use biscuit_auth::format::schema;
use biscuit_auth::{Biscuit, KeyPair, PrivateKey};
use prost::Message;
use rand::Rng;
use serde_json::{json, Value};
use std::collections::{BTreeMap, BTreeSet};

fn le32(n: u32) -> [u8; 4] {
    n.to_le_bytes()
}

/// test fixture: the version-1 payloads, used only to *craft* correctly signed inputs
fn block_payload_v1(data: &[u8], alg: i32, key: &[u8], prev_sig: &[u8], ext_sig: Option<&[u8]>) -> Vec<u8> {
    let mut v = b"\0BLOCK\0\0VERSION\0".to_vec();
    v.extend(le32(1));
    v.extend(b"\0PAYLOAD\0");
    v.extend(data);
    v.extend(b"\0ALGORITHM\0");
    v.extend((alg as u32).to_le_bytes());
    v.extend(b"\0NEXTKEY\0");
    v.extend(key);
    v.extend(b"\0PREVSIG\0");
    v.extend(prev_sig);
    if let Some(e) = ext_sig {
        v.extend(b"\0EXTERNALSIG\0");
        v.extend(e);
    }
    v
}

fn external_payload_v1(data: &[u8], prev_sig: &[u8]) -> Vec<u8> {
    let mut v = b"\0EXTERNAL\0\0VERSION\0".to_vec();
    v.extend(le32(1));
    v.extend(b"\0PAYLOAD\0");
    v.extend(data);
    v.extend(b"\0PREVSIG\0");
    v.extend(prev_sig);
    v
}

/// appends `data` as a correctly signed block (signature version 1) to an unsealed token
pub fn craft_append(base: &Biscuit, data: Vec<u8>, ext: Option<&KeyPair>, next: &KeyPair) -> Vec<u8> {
    let mut w = decode(&base.to_vec().unwrap()).unwrap();
    let last = w.blocks.last().unwrap_or(&w.authority).clone();
    let secret = match &w.proof.content {
        Some(schema::proof::Content::NextSecret(s)) => s.clone(),
        _ => panic!("sealed"),
    };
    let alg = if last.next_key.algorithm == 0 { Algorithm::Ed25519 } else { Algorithm::Secp256r1 };
    let signer = KeyPair::from(&PrivateKey::from_bytes(&secret, alg).unwrap());
    let next_pk = next.public().to_proto();
    let ext_sig = ext.map(|k| {
        let s = k.sign(&external_payload_v1(&data, &last.signature)).unwrap();
        schema::ExternalSignature { signature: s.to_bytes().to_vec(), public_key: k.public().to_proto() }
    });
    let payload = block_payload_v1(&data, next_pk.algorithm, &next_pk.key, &last.signature, ext_sig.as_ref().map(|e| &e.signature[..]));
    let sig = signer.sign(&payload).unwrap();
    w.blocks.push(schema::SignedBlock {
        block: data,
        next_key: next_pk,
        signature: sig.to_bytes().to_vec(),
        external_signature: ext_sig,
        version: Some(1),
    });
    w.proof.content = Some(schema::proof::Content::NextSecret(next.private().to_bytes().to_vec()));
    encode(&w)
}

fn q(body: Vec<Predicate>, exprs: Vec<Expression>, scopes: Vec<Scope>) -> Rule {
    Rule::new(Predicate { name: "query".into(), terms: vec![] }, body, exprs, scopes)
}

fn p1(t: Term) -> Predicate {
    Predicate { name: "f".into(), terms: vec![t] }
}

fn operand_for(b: &Binary) -> (Vec<Op>, Vec<Op>) {
    let i = |n: i64| vec![Op::Value(Term::Integer(n))];
    let s = |x: &str| vec![Op::Value(Term::Str(x.to_string()))];
    let t = |x: bool| vec![Op::Value(Term::Bool(x))];
    let set = || vec![Op::Value(Term::Set([Term::Integer(1)].into_iter().collect::<BTreeSet<_>>()))];
    match b {
        Binary::Contains | Binary::Prefix | Binary::Suffix | Binary::Regex => (s("abc"), s("a")),
        Binary::And | Binary::Or => (t(true), t(false)),
        Binary::Intersection | Binary::Union => (set(), set()),
        Binary::LazyAnd | Binary::LazyOr => (t(true), vec![Op::Closure(vec![], t(true))]),
        Binary::All | Binary::Any => (set(), vec![Op::Closure(vec!["p".into()], vec![Op::Value(Term::Variable("p".into())), Op::Value(Term::Integer(0)), Op::Binary(Binary::GreaterThan)])]),
        Binary::Get => (vec![Op::Value(Term::Variable("x".into()))], i(0)),
        _ => (i(1), i(2)),
    }
}

/// one block per feature: (feature name, block JSON parts)
fn feature_blocks(keys: &Keys, pool: &mut Pool) -> Vec<(String, Value)> {
    let mut out = vec![];
    let mut push = |name: String, facts: Vec<Predicate>, rules: Vec<Rule>, checks: Vec<Check>, scopes: Vec<Scope>, pool: &mut Pool| {
        out.push((name, json!({
            "facts": facts.iter().map(|f| pred_j(f, pool)).collect::<Vec<_>>(),
            "rules": rules.iter().map(|r| rule_j(r, pool, keys)).collect::<Vec<_>>(),
            "checks": checks.iter().map(|c| check_j(c, pool, keys)).collect::<Vec<_>>(),
            "sc": scopes.iter().map(|s| scope_j(s, keys)).collect::<Vec<_>>(), "ext": null})));
    };
    push("plain fact".into(), vec![p1(Term::Integer(1))], vec![], vec![], vec![], pool);
    // operators, in a check and in a rule
    for b in BBINARIES.iter() {
        let (l, r) = operand_for(b);
        let mut ops = l.clone();
        ops.extend(r.clone());
        ops.push(Op::Binary(b.clone()));
        let body = vec![p1(Term::Variable("x".into()))];
        push(format!("check with {:?}", b), vec![], vec![], vec![Check { kind: CheckKind::One, queries: vec![q(body.clone(), vec![Expression { ops: ops.clone() }], vec![])] }], vec![], pool);
        push(format!("rule with {:?}", b), vec![], vec![Rule::new(p1(Term::Variable("x".into())), body, vec![Expression { ops }], vec![])], vec![], vec![], pool);
    }
    push("check with extern call".into(), vec![], vec![], vec![Check { kind: CheckKind::One, queries: vec![q(vec![], vec![Expression { ops: vec![Op::Value(Term::Integer(1)), Op::Value(Term::Integer(1)), Op::Binary(Binary::Ffi("ext".into()))] }], vec![])] }], vec![], pool);
    for u in [Unary::Negate, Unary::Parens, Unary::Length, Unary::TypeOf, Unary::Ffi("ext".into())] {
        let arg = match u {
            Unary::Negate => Term::Bool(true),
            Unary::Length => Term::Str("abc".into()),
            _ => Term::Integer(1),
        };
        let mut ops = vec![Op::Value(arg), Op::Unary(u.clone())];
        if !matches!(u, Unary::Negate) {
            ops.push(Op::Value(Term::Integer(3)));
            ops.push(Op::Binary(Binary::Equal));
        }
        push(format!("check with unary {:?}", u), vec![], vec![], vec![Check { kind: CheckKind::One, queries: vec![q(vec![], vec![Expression { ops }], vec![])] }], vec![], pool);
    }
    // term kinds, top level and nested, in facts, rule heads, rule bodies, check bodies, expressions
    let set = |v: Vec<Term>| Term::Set(v.into_iter().collect::<BTreeSet<_>>());
    let map = |v: Vec<(MapKey, Term)>| Term::Map(v.into_iter().collect::<BTreeMap<_, _>>());
    let terms: Vec<(&str, Term)> = vec![
        ("integer", Term::Integer(1)),
        ("string", Term::Str("s".into())),
        ("date", Term::Date(1)),
        ("bytes", Term::Bytes(vec![1])),
        ("bool", Term::Bool(true)),
        ("set of integers", set(vec![Term::Integer(1), Term::Integer(2)])),
        ("empty set", set(vec![])),
        ("null", Term::Null),
        ("empty array", Term::Array(vec![])),
        ("array", Term::Array(vec![Term::Integer(1)])),
        ("array of null", Term::Array(vec![Term::Null])),
        ("nested array", Term::Array(vec![Term::Array(vec![Term::Integer(1)])])),
        ("empty map", map(vec![])),
        ("map", map(vec![(MapKey::Integer(1), Term::Integer(1))])),
        ("map with string key and null", map(vec![(MapKey::Str("k".into()), Term::Null)])),
        ("map of array", map(vec![(MapKey::Integer(1), Term::Array(vec![Term::Integer(1)]))])),
    ];
    for (name, t) in terms.iter() {
        push(format!("fact with {name}"), vec![p1(t.clone())], vec![], vec![], vec![], pool);
        push(format!("rule head with {name}"), vec![], vec![Rule::new(p1(t.clone()), vec![Predicate { name: "g".into(), terms: vec![Term::Variable("x".into())] }], vec![], vec![])], vec![], vec![], pool);
        push(format!("rule body with {name}"), vec![], vec![Rule::new(Predicate { name: "g".into(), terms: vec![Term::Integer(0)] }, vec![p1(t.clone())], vec![], vec![])], vec![], vec![], pool);
        push(format!("check body with {name}"), vec![], vec![], vec![Check { kind: CheckKind::One, queries: vec![q(vec![p1(t.clone())], vec![], vec![])] }], vec![], pool);
        push(format!("expression value {name}"), vec![], vec![], vec![Check { kind: CheckKind::One, queries: vec![q(vec![], vec![Expression { ops: vec![Op::Value(t.clone()), Op::Value(t.clone()), Op::Binary(Binary::Equal)] }], vec![])] }], vec![], pool);
    }
    // check kinds
    for k in [CheckKind::One, CheckKind::All, CheckKind::Reject] {
        push(format!("check kind {:?}", k), vec![], vec![], vec![Check { kind: k, queries: vec![q(vec![p1(Term::Variable("x".into()))], vec![], vec![])] }], vec![], pool);
    }
    // scopes in every position
    for (sn, sc) in [("authority", Scope::Authority), ("previous", Scope::Previous), ("key", Scope::PublicKey(keys.ext[0].public()))] {
        push(format!("block scope {sn}"), vec![p1(Term::Integer(1))], vec![], vec![], vec![sc.clone()], pool);
        push(format!("rule scope {sn}"), vec![], vec![Rule::new(p1(Term::Variable("x".into())), vec![Predicate { name: "g".into(), terms: vec![Term::Variable("x".into())] }], vec![], vec![sc.clone()])], vec![], vec![], pool);
        push(format!("check scope {sn}"), vec![], vec![], vec![Check { kind: CheckKind::One, queries: vec![q(vec![p1(Term::Variable("x".into()))], vec![], vec![sc.clone()])] }], vec![], pool);
    }
    out
}

pub fn run(opts: &Opts) {
    let mut sink = Sink::new(opts, "versions");
    let mut krng = case_rng(7, 7, 7);
    let keys = Keys::new(&mut krng);
    let mut stats: BTreeMap<String, u64> = BTreeMap::new();
    let replay_cases = opts.replay.as_ref().map(|p| read_cases(p));
    let mut pool = Pool::default();
    let feats = feature_blocks(&keys, &mut pool);
    let pool_strs = pool.strs.clone();
    let mut cases: Vec<Value> = vec![];
    if let Some(rc) = replay_cases {
        cases = rc;
    } else {
        for (name, blk) in feats.iter() {
            for placement in ["authority", "appended", "third-party"] {
                cases.push(json!({"op": "versions", "kind": "declared", "feature": name, "placement": placement, "pool": pool_strs, "block": blk}));
            }
            for declared in 0..9u32 {
                for tp in [false, true] {
                    cases.push(json!({"op": "versions", "kind": "gate", "feature": name, "declared": declared, "third_party": tp, "pool": pool_strs, "block": blk}));
                }
            }
        }
        // random blocks from the program generator
        let n = if opts.thorough { 3000 } else { 150 };
        for i in 0..n {
            let mut rng = case_rng(opts.seed, 16, i as u64);
            let mut pool = Pool::default();
            let mut auth = vec![];
            let blk = gen_block_j(&mut rng, &keys, &mut pool, 0, &GenOpts { err_rate: 0, max_blocks: 1 }, &mut auth);
            cases.push(json!({"op": "versions", "kind": "declared", "feature": "generated", "placement": "appended", "pool": pool.strs, "block": blk}));
            cases.push(json!({"op": "versions", "kind": "gate", "feature": "generated", "declared": rng.gen_range(2..8), "third_party": rng.gen::<bool>(), "pool": pool.strs, "block": blk}));
        }
    }
    for case in cases {
        let c = case.clone();
        let r = std::panic::catch_unwind(std::panic::AssertUnwindSafe(|| {
            let pool = pool_of(&c);
            let bb = match block_builder_of(&c["block"], &pool, &keys) {
                Ok(b) => b,
                Err(e) => return json!({"builder_error": format!("{:?}", e)}),
            };
            let base = BiscuitBuilder::new().build(&keys.root).unwrap();
            if c["kind"] == "declared" {
                let t = match c["placement"].as_str().unwrap() {
                    "authority" => {
                        let mut b = BiscuitBuilder::new().merge(bb.clone());
                        for s in c["block"]["sc"].as_array().unwrap() {
                            b = b.scope(scope_b(s, &keys));
                        }
                        b.build(&keys.root).map(|t| (t, 0))
                    }
                    "appended" => base.append(bb).map(|t| (t, 1)),
                    _ => {
                        let req = base.third_party_request().unwrap();
                        req.create_block(&keys.ext[1].private(), bb).and_then(|b| base.append_third_party(keys.ext[1].public(), b)).map(|t| (t, 1))
                    }
                };
                match t {
                    Ok((t, i)) => {
                        let sigv = decode(&t.to_vec().unwrap()).map(|w| if i == 0 { w.authority.version } else { w.blocks[0].version });
                        json!({"declared": t.block_version(i).ok(), "signature_version": sigv.flatten().unwrap_or(0)})
                    }
                    Err(e) => json!({"build_error": format!("{:?}", e).chars().take(100).collect::<String>()}),
                }
            } else {
                // the same block, declaring another version, correctly signed
                let built = base.append(bb).unwrap();
                let w = decode(&built.to_vec().unwrap()).unwrap();
                let mut inner = schema::Block::decode(&w.blocks[0].block[..]).unwrap();
                inner.version = Some(c["declared"].as_u64().unwrap() as u32);
                let mut data = vec![];
                inner.encode(&mut data).unwrap();
                let next = KeyPair::new();
                let ext = if c["third_party"].as_bool().unwrap() { Some(&keys.ext[1]) } else { None };
                let bytes = craft_append(&base, data, ext, &next);
                match Biscuit::from(&bytes, keys.root.public()) {
                    Err(e) => json!({"load": false, "stage": "from", "error": format!("{:?}", e).chars().take(100).collect::<String>()}),
                    Ok(t) => match t.authorizer() {
                        Ok(_) => json!({"load": true}),
                        Err(e) => json!({"load": false, "stage": "authorizer", "error": format!("{:?}", e).chars().take(100).collect::<String>()}),
                    },
                }
            }
        }));
        let out = match r {
            Ok(v) => v,
            Err(e) => json!({"panic": panic_msg(e)}),
        };
        let k = if case["kind"] == "declared" { format!("declared/{}", out.get("declared").map(|d| d.to_string()).unwrap_or("err".into())) } else { format!("gate/{}", out["load"]) };
        *stats.entry(k).or_insert(0) += 1;
        sink.put(&case, &out);
    }
    let total = sink.count;
    sink.finish();
    let st = json!({"stream": "versions", "cases": total, "histogram": stats});
    std::fs::write(format!("{}/versions.stats.json", opts.out), st.to_string()).unwrap();
}
