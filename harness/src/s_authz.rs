//! stream `authz`: token + authorizer built through the public API vs Model/Authorizer
use crate::common::*;
use crate::prog::*;
use biscuit_auth::builder::{Fact, Rule};
use biscuit_auth::{Authorizer, AuthorizerLimits, Biscuit};
use rand::Rng;
use serde_json::{json, Value};
use std::collections::BTreeMap;
use std::time::Duration;

pub fn limits_of(case: &Value) -> AuthorizerLimits {
    AuthorizerLimits {
        max_facts: case["limits"]["f"].as_u64().unwrap(),
        max_iterations: case["limits"]["i"].as_u64().unwrap(),
        max_time: Duration::from_secs(3600),
    }
}

pub fn run_queries(case: &Value, pool: &[String], keys: &Keys, az: &mut Authorizer) -> Value {
    let mut qs = vec![];
    for q in case["queries"].as_array().unwrap() {
        let rule: Rule = rule_b(&q["q"], pool, keys);
        let r: Result<Vec<Fact>, _> = if q["all"].as_bool().unwrap() { az.query_all(rule) } else { az.query(rule) };
        qs.push(match r {
            Ok(fs) => {
                // the answer is a set: order and multiplicity are not part of the outcome
                let mut v: Vec<(String, Value)> = fs.iter().map(|f| { let j = bfact_out(f); (j.to_string(), j) }).collect();
                v.sort_by(|a, b| a.0.cmp(&b.0));
                v.dedup_by(|a, b| a.0 == b.0);
                json!({"facts": v.into_iter().map(|x| x.1).collect::<Vec<_>>()})
            }
            Err(e) => token_err_j(&e),
        });
    }
    Value::Array(qs)
}

/// how many rows each query returns (`query` lists a fact once per origin set it is known under; the number is
/// part of what the call reports, the order is not)
pub fn run_query_rows(case: &Value, pool: &[String], keys: &Keys, az: &mut Authorizer) -> Value {
    let mut rows = vec![];
    for q in case["queries"].as_array().unwrap() {
        let rule: Rule = rule_b(&q["q"], pool, keys);
        let r: Result<Vec<Fact>, _> = if q["all"].as_bool().unwrap() { az.query_all(rule) } else { az.query(rule) };
        rows.push(match r {
            Ok(fs) => json!(fs.len()),
            Err(_) => Value::Null,
        });
    }
    Value::Array(rows)
}

/// one authorizer built from scratch on the token, authorized, then queried
pub fn authorize_once(case: &Value, pool: &[String], keys: &Keys, token: &Biscuit) -> Value {
    let ab = match authorizer_builder_of(&case["az"], pool, keys) {
        Ok(ab) => ab,
        Err(e) => return json!({"r": "builder-error", "kind": format!("{:?}", e)}),
    };
    let mut az = match ab.limits(limits_of(case)).build(token) {
        Ok(a) => a,
        Err(e) => return token_err_j(&e),
    };
    let res = az.authorize();
    let mut out = authz_outcome_j(&res);
    out["iterations"] = json!(az.iterations());
    out["fact_count"] = json!(az.fact_count());
    out["queries"] = run_queries(case, pool, keys, &mut az);
    out["query_rows"] = run_query_rows(case, pool, keys, &mut az);
    // asking again changes nothing: the second answer of the same object is the first one (also after a failed run)
    let again = authz_outcome_j(&az.authorize());
    if ["r", "p", "pk", "failed", "kind"].iter().any(|k| again.get(*k) != out.get(*k)) {
        out["again_differs"] = again;
    }
    out
}

/// the same, on the authorizer restored from a snapshot taken before anything ran
pub fn authorize_via_snapshot(case: &Value, pool: &[String], keys: &Keys, token: &Biscuit) -> Option<Value> {
    let ab = authorizer_builder_of(&case["az"], pool, keys).ok()?;
    let az0 = ab.limits(limits_of(case)).build(token).ok()?;
    let bytes = az0.to_raw_snapshot().ok()?;
    let mut az = match Authorizer::from_raw_snapshot(&bytes) {
        Ok(a) => a,
        Err(e) => return Some(json!({"r": "restore-error", "kind": format!("{:?}", e)})),
    };
    let res = az.authorize();
    let mut out = authz_outcome_j(&res);
    out["iterations"] = json!(az.iterations());
    out["fact_count"] = json!(az.fact_count());
    out["queries"] = run_queries(case, pool, keys, &mut az);
    out["query_rows"] = run_query_rows(case, pool, keys, &mut az);
    Some(out)
}

pub fn run_case(case: &Value, keys: &Keys) -> Value {
    let case = case.clone();
    let r = std::panic::catch_unwind(std::panic::AssertUnwindSafe(|| {
        let pool = pool_of(&case);
        let blocks = case["blocks"].as_array().unwrap();
        let token = match build_token(blocks, &pool, keys) {
            Ok(t) => t,
            Err(e) => return json!({"r": "token-error", "kind": format!("{:?}", e)}),
        };
        let mut out = authorize_once(&case, &pool, keys, &token);
        // the same token after a serialization round trip, and sealed
        let bytes = token.to_vec().unwrap();
        match Biscuit::from(&bytes, keys.root.public()) {
            Ok(t2) => {
                let o2 = authorize_once(&case, &pool, keys, &t2);
                if o2 != out {
                    out["reload_differs"] = o2;
                }
            }
            Err(e) => {
                out["reload_error"] = json!(format!("{:?}", e));
            }
        }
        if let Some(o4) = authorize_via_snapshot(&case, &pool, keys, &token) {
            if o4 != out {
                out["snapshot_differs"] = o4;
            }
        }
        match token.seal() {
            Ok(t3) => {
                let o3 = authorize_once(&case, &pool, keys, &t3);
                if o3 != out {
                    out["sealed_differs"] = o3;
                }
            }
            Err(e) => {
                out["seal_error"] = json!(format!("{:?}", e));
            }
        }
        // the same blocks on a symbol table the application supplies (two strings of the pool and one of its own):
        // the meaning is the same, in memory and once sealed
        let mut base = biscuit_auth::datalog::SymbolTable::new();
        for s in pool.iter().take(2) {
            base.insert(s);
        }
        base.insert("application-defined");
        if let Ok(t4) = build_token_on(blocks, &pool, keys, Some(base)) {
            let plain = |o: &Value| -> Value {
                let mut k = json!({});
                for f in ["r", "p", "pk", "failed", "kind", "queries", "query_rows", "iterations", "fact_count"] {
                    if let Some(v) = o.get(f) {
                        k[f] = v.clone();
                    }
                }
                k
            };
            let o4 = authorize_once(&case, &pool, keys, &t4);
            if plain(&o4) != plain(&out) {
                out["base_table_differs"] = o4.clone();
            }
            if let Ok(t5) = t4.seal() {
                let o5 = authorize_once(&case, &pool, keys, &t5);
                if plain(&o5) != plain(&o4) {
                    out["base_table_sealed_differs"] = o5;
                }
            }
        }
        out
    }));
    match r {
        Ok(v) => v,
        Err(e) => json!({"panic": panic_msg(e)}),
    }
}

pub fn gen_case(rng: &mut rand::rngs::StdRng, keys: &Keys, o: &GenOpts) -> Value {
    let mut pool = Pool::default();
    let nb = rng.gen_range(1..=o.max_blocks);
    let mut authority = vec![];
    let mut blocks: Vec<Value> = (0..nb).map(|i| gen_block_j(rng, keys, &mut pool, i, o, &mut authority)).collect();
    let mut az = gen_az_j(rng, keys, &mut pool, o, &authority);
    // one external key signing several blocks, and authorizer elements that trust exactly that key:
    // what they see depends on every block registered under the key
    if nb >= 3 && rng.gen_range(0..4) == 0 {
        let k = rng.gen_range(0..3u64);
        let mut marked = vec![];
        for (i, b) in blocks.iter_mut().enumerate().skip(1) {
            if rng.gen_range(0..3) > 0 {
                b["ext"] = json!(k);
                let f = biscuit_auth::builder::Predicate { name: "mark".into(), terms: vec![biscuit_auth::builder::Term::Integer(i as i64)] };
                b["facts"].as_array_mut().unwrap().push(pred_j(&f, &mut pool));
                marked.push(f);
            }
        }
        for f in marked.iter() {
            let mut q = query_from_fact(rng, f);
            q.scopes = vec![biscuit_auth::builder::Scope::PublicKey(keys.ext[k as usize].public())];
            let c = biscuit_auth::builder::Check { kind: biscuit_auth::builder::CheckKind::One, queries: vec![q] };
            az["checks"].as_array_mut().unwrap().push(check_j(&c, &mut pool, keys));
        }
    }
    let mut queries = gen_queries_j(rng, keys, &mut pool);
    // a fact of the authority block stated by the authorizer as well (one fact, two origins), and a query that lists it
    // with whatever else its predicate holds
    if !authority.is_empty() && rng.gen_range(0..3) == 0 {
        use biscuit_auth::builder::{Predicate, Rule, Term};
        let f = pick(rng, &authority).clone();
        az["facts"].as_array_mut().unwrap().push(pred_j(&f, &mut pool));
        let vars: Vec<Term> = (0..f.terms.len()).map(|i| Term::Variable(format!("q{i}"))).collect();
        let r = Rule::new(Predicate { name: "data".into(), terms: vars.clone() }, vec![Predicate { name: f.name.clone(), terms: vars }], vec![], vec![]);
        queries.push(json!({"all": rng.gen_range(0..3) == 0, "q": rule_j(&r, &mut pool, keys)}));
    }
    json!({"op": "authz", "pool": pool.strs, "blocks": blocks, "az": az, "limits": {"f": 1000, "i": 100}, "queries": queries})
}

pub fn run(opts: &Opts) {
    let mut sink = Sink::new(opts, "authz");
    let mut krng = case_rng(7, 7, 7);
    let keys = Keys::new(&mut krng);
    let mut stats: BTreeMap<String, u64> = BTreeMap::new();
    let mut emit = |sink: &mut Sink, case: Value, class: &str| -> Value {
        let out = run_case(&case, &keys);
        let k = out.get("r").and_then(|x| x.as_str()).unwrap_or("PANIC").to_string();
        *stats.entry(format!("{class}/{k}")).or_insert(0) += 1;
        if let Some(f) = out.get("failed").and_then(|f| f.as_array()) {
            *stats.entry(format!("failed_checks/{}", f.len().min(4))).or_insert(0) += 1;
        }
        if let Some(p) = out.get("p").and_then(|p| p.as_u64()) {
            *stats.entry(format!("policy_index/{}", p.min(3))).or_insert(0) += 1;
        }
        *stats.entry(format!("blocks/{}", case["blocks"].as_array().unwrap().len())).or_insert(0) += 1;
        if case["blocks"].as_array().unwrap().iter().any(|b| !b["ext"].is_null()) {
            *stats.entry("with_third_party".into()).or_insert(0) += 1;
        }
        sink.put(&case, &out);
        out
    };
    if let Some(path) = &opts.replay {
        for case in read_cases(path) {
            emit(&mut sink, case, "replay");
        }
        sink.finish();
        return;
    }
    for case in read_cases("corpus/authz.jsonl") {
        emit(&mut sink, case, "corpus");
    }
    let n = if opts.n > 0 { opts.n } else if opts.thorough { 30_000 } else { 1_500 };
    for i in 0..n {
        let mut rng = case_rng(opts.seed, 4, i as u64);
        let o = GenOpts { err_rate: if i % 3 == 0 { 6 } else { 0 }, max_blocks: 4 };
        let case = gen_case(&mut rng, &keys, &o);
        emit(&mut sink, case, "gen");
    }
    let total = sink.count;
    sink.finish();
    let st = json!({"stream": "authz", "cases": total, "histogram": stats});
    std::fs::write(format!("{}/authz.stats.json", opts.out), st.to_string()).unwrap();
}
