//! stream `blockparse`: `parse_block_source` / `parse_source` against their Lean model (C14)
//!
//! A case is a text and which of the two entry points reads it.  The implementation side is the
//! parsed source (scopes, facts, rules, checks, policies, in order) or the fact that there were errors.
use crate::common::*;
use crate::prog::Keys;
use crate::s_itemparse::{body_j, pred_j, scope_j};
use crate::s_print::gen_item;
use crate::s_termparse::date_table;
use rand::rngs::StdRng;
use rand::Rng;
use serde_json::{json, Value};
use std::collections::BTreeMap;

pub fn run_case(case: &Value) -> Value {
    let text = case["text"].as_str().unwrap().to_string();
    let block = case["kind"] == "block";
    let r = std::panic::catch_unwind(|| {
        let res = if block { biscuit_parser::parser::parse_block_source(&text) } else { biscuit_parser::parser::parse_source(&text) };
        match res {
            Err(_) => json!({"r": "err"}),
            Ok(s) => json!({
                "r": "ok",
                "scopes": s.scopes.iter().map(scope_j).collect::<Vec<_>>(),
                "facts": s.facts.iter().map(|(_, f)| pred_j(&f.predicate)).collect::<Vec<_>>(),
                "rules": s.rules.iter().map(|(_, r)| json!({"head": pred_j(&r.head), "body": body_j(&r.body, &r.expressions, &r.scopes)})).collect::<Vec<_>>(),
                "checks": s.checks.iter().map(|(_, c)| json!({"kind": format!("{:?}", c.kind).to_lowercase(),
                    "bodies": c.queries.iter().map(|q| body_j(&q.body, &q.expressions, &q.scopes)).collect::<Vec<_>>()})).collect::<Vec<_>>(),
                "policies": s.policies.iter().map(|(_, c)| json!({"kind": format!("{:?}", c.kind).to_lowercase(),
                    "bodies": c.queries.iter().map(|q| body_j(&q.body, &q.expressions, &q.scopes)).collect::<Vec<_>>()})).collect::<Vec<_>>(),
            }),
        }
    });
    match r {
        Ok(v) => v,
        Err(e) => json!({"panic": panic_msg(e)}),
    }
}

const INS: [&str; 26] = [
    ";", ";;", "\n", " ", "// c\n", "// c", "/* c */", "/* c", "*/", "//", "trusting authority;\n", "trusting ;", "f(1);", "f(1)", "f($x);", "h($x) <- f($x);",
    "check if true;", "allow if true;", "deny if false;", "x", ",", "(", ")", "\r\n", "// a;b\n", "/* ; */",
];

fn mutate(rng: &mut StdRng, text: &str) -> String {
    let mut cs: Vec<char> = text.chars().collect();
    for _ in 0..rng.gen_range(1..3) {
        let p = if cs.is_empty() { 0 } else { rng.gen_range(0..=cs.len()) };
        match rng.gen_range(0..4) {
            0 | 1 => {
                let ins: &str = *pick(rng, &INS);
                // at a statement boundary, more often than anywhere
                let q = if rng.gen() { cs.iter().enumerate().filter(|(_, c)| **c == '\n').map(|(i, _)| i + 1).nth(rng.gen_range(0..4)).unwrap_or(p) } else { p };
                for (k, c) in ins.chars().enumerate() {
                    cs.insert((q + k).min(cs.len()), c);
                }
            }
            2 => {
                if p < cs.len() {
                    cs.remove(p);
                }
            }
            _ => cs.truncate(p),
        }
    }
    cs.into_iter().collect()
}

pub fn gen_case(rng: &mut StdRng, i: usize, keys: &Keys) -> Value {
    let block = i % 2 == 0;
    let loose = rng.gen_range(0..3) == 0;
    let printed = if block {
        let item = gen_item(rng, "block", keys, loose);
        crate::s_print::block_text(&item)
    } else {
        let item = gen_item(rng, "authorizer", keys, loose);
        crate::s_print::authorizer_text(&item)
    };
    let (gen, text) = match (i / 2) % 4 {
        0 | 1 => ("printed", printed),
        2 => ("mutated", mutate(rng, &printed)),
        _ => {
            let mut s = String::new();
            for _ in 0..rng.gen_range(0..8) {
                let f: &str = *pick(rng, &INS);
                s.push_str(f);
            }
            ("soup", s)
        }
    };
    json!({"op": "blockparse", "kind": if block { "block" } else { "source" }, "gen": gen, "text": text, "dates": date_table(&text)})
}

pub fn run(opts: &Opts) {
    let mut sink = Sink::new(opts, "blockparse");
    let mut krng = case_rng(7, 7, 7);
    let keys = Keys::new(&mut krng);
    let mut stats: BTreeMap<String, u64> = BTreeMap::new();
    let mut emit = |sink: &mut Sink, mut case: Value| {
        let text = case["text"].as_str().unwrap().to_string();
        case["dates"] = Value::Array(date_table(&text));
        let out = run_case(&case);
        let k = if out.get("panic").is_some() { "PANIC".to_string() } else { out["r"].as_str().unwrap_or("?").to_string() };
        *stats.entry(format!("{}/{}/{}", case["kind"].as_str().unwrap_or("?"), case["gen"].as_str().unwrap_or("replay"), k)).or_insert(0) += 1;
        sink.put(&case, &out);
    };
    if let Some(path) = &opts.replay {
        for case in read_cases(path) {
            emit(&mut sink, case);
        }
        sink.finish();
        return;
    }
    for case in read_cases("corpus/blockparse.jsonl") {
        emit(&mut sink, case);
    }
    let n = if opts.n > 0 { opts.n } else if opts.thorough { 40_000 } else { 3_000 };
    for i in 0..n {
        let mut rng = case_rng(opts.seed, 26, i as u64);
        let case = gen_case(&mut rng, i, &keys);
        emit(&mut sink, case);
    }
    let total = sink.count;
    sink.finish();
    let st = json!({"stream": "blockparse", "cases": total, "histogram": stats});
    std::fs::write(format!("{}/blockparse.stats.json", opts.out), st.to_string()).unwrap();
}
