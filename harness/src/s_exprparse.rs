//! stream `exprparse`: the expression parser against its Lean model (C14)
//!
//! A case is a text.  The implementation side is `biscuit_parser::parser::expr` itself: the tree
//! it builds (before it is flattened into ops) and how many characters were left, or which of
//! nom's two error classes came back.
use crate::common::*;
use crate::s_print::gen_expression;
use crate::s_termparse::{date_table, term_j};
use biscuit_parser::builder::{Binary, Op, Unary};
use biscuit_parser::parser::Expr;
use rand::rngs::StdRng;
use rand::Rng;
use serde_json::{json, Value};
use std::collections::BTreeMap;

fn bin_name(b: &Binary) -> (&'static str, Option<String>) {
    use Binary::*;
    let n = match b {
        LessThan => "lt", GreaterThan => "gt", LessOrEqual => "le", GreaterOrEqual => "ge", Equal => "eq", Contains => "contains",
        Prefix => "prefix", Suffix => "suffix", Regex => "regex", Add => "add", Sub => "sub", Mul => "mul", Div => "div", And => "and",
        Or => "or", Intersection => "intersection", Union => "union", BitwiseAnd => "band", BitwiseOr => "bor", BitwiseXor => "bxor",
        NotEqual => "ne", HeterogeneousEqual => "heq", HeterogeneousNotEqual => "hne", LazyAnd => "lazyand", LazyOr => "lazyor",
        All => "all", Any => "any", Get => "get",
        Ffi(n) => return ("ffi", Some(n.clone())),
    };
    (n, None)
}

fn expr_j(e: &Expr) -> Value {
    match e {
        Expr::Value(t) => json!({"val": term_j(t)}),
        Expr::Unary(Op::Unary(u), a) => {
            let (n, name) = match u {
                Unary::Negate => ("negate", None),
                Unary::Parens => ("parens", None),
                Unary::Length => ("length", None),
                Unary::TypeOf => ("type", None),
                Unary::Ffi(n) => ("ffi", Some(n.clone())),
            };
            json!({"un": n, "name": name, "a": expr_j(a)})
        }
        Expr::Binary(Op::Binary(b), l, r) => {
            let (n, name) = bin_name(b);
            json!({"bin": n, "name": name, "l": expr_j(l), "r": expr_j(r)})
        }
        Expr::Closure(ps, body) => json!({"clo": ps, "body": expr_j(body)}),
        other => json!({"unexpected": format!("{:?}", other)}),
    }
}

pub fn run_case(case: &Value) -> Value {
    let text = case["text"].as_str().unwrap().to_string();
    let r = std::panic::catch_unwind(|| match biscuit_parser::parser::expr(&text) {
        Ok((rest, e)) => json!({"r": "ok", "rest": rest.chars().count(), "tree": expr_j(&e)}),
        Err(nom::Err::Error(_)) => json!({"r": "err"}),
        Err(nom::Err::Failure(_)) => json!({"r": "fail"}),
        Err(nom::Err::Incomplete(_)) => json!({"r": "incomplete"}),
    });
    match r {
        Ok(v) => v,
        Err(e) => json!({"panic": panic_msg(e)}),
    }
}

const FRAGS: [&str; 78] = [
    "1", "2", "-3", "$x", "$y", "true", "false", "\"a\"", "\"a b\"", "null", "hex:ab", "[1, 2]", "{1, 2}", "{\"k\": 1}", "{p}", "2020-01-01T00:00:00Z",
    " ", " ", " ", "\t", "\n", "(", ")", "(", ")", "!", "!", "||", "&&", "|", "&", "^", "+", "-", "*", "/", "<", "<=", ">", ">=", "==", "===", "!=",
    "!==", "=", ".", ".length()", ".type()", ".contains(", ".starts_with(", ".ends_with(", ".matches(", ".intersection(", ".union(", ".get(",
    ".all($a -> ", ".any($b -> ", ".all(", ".extern::f()", ".extern::g(", ".lengthx()", ". length()", ".length( )", ".length(1)", "->", "$",
    ",", ";", "trusting", "&&!", "||!", "- 1", "--1", "1-1", "1 -1", "x", "\u{142}", "9223372036854775808",
];

const INS: [char; 34] = [
    ' ', '\t', '(', ')', '!', '|', '&', '^', '+', '-', '*', '/', '<', '>', '=', '.', '$', ',', '"', '[', ']', '{', '}', '0', '9', 'a', 'x', ':', ';',
    '\n', '\u{142}', 't', 'l', 'n',
];

fn mutate(rng: &mut StdRng, text: &str) -> String {
    let mut cs: Vec<char> = text.chars().collect();
    for _ in 0..rng.gen_range(1..4) {
        if cs.is_empty() {
            cs.push(*pick(rng, &INS));
            continue;
        }
        let p = rng.gen_range(0..cs.len());
        match rng.gen_range(0..5) {
            0 => {
                cs.remove(p);
            }
            1 => cs.insert(p, *pick(rng, &INS)),
            2 => cs[p] = *pick(rng, &INS),
            3 => cs.truncate(p),
            _ => {
                let q = rng.gen_range(0..cs.len());
                cs.swap(p, q);
            }
        }
    }
    cs.into_iter().collect()
}

fn soup(rng: &mut StdRng) -> String {
    let mut s = String::new();
    for _ in 0..rng.gen_range(1..14) {
        let f: &str = *pick(rng, &FRAGS);
        s.push_str(f);
    }
    s
}

/// blanks removed or doubled around operators (outside string literals)
fn respace(rng: &mut StdRng, text: &str) -> String {
    let mut out = String::new();
    let mut in_str = false;
    let mut esc = false;
    for c in text.chars() {
        if in_str {
            out.push(c);
            if esc {
                esc = false;
            } else if c == '\\' {
                esc = true;
            } else if c == '"' {
                in_str = false;
            }
            continue;
        }
        if c == '"' {
            in_str = true;
            out.push(c);
            continue;
        }
        if c == ' ' {
            match rng.gen_range(0..4) {
                0 => {}
                1 => out.push_str("  "),
                2 => out.push('\n'),
                _ => out.push(' '),
            }
            continue;
        }
        out.push(c);
    }
    out
}

pub fn gen_case(rng: &mut StdRng, i: usize) -> Value {
    let loose = rng.gen_range(0..3) == 0;
    let printed = gen_expression(rng, loose).to_string();
    let (gen, text) = match i % 8 {
        0 | 1 => {
            let tail = *pick(rng, &["", "", ", g($x)", ";", " trusting authority", ")", " or true"]);
            ("printed", format!("{printed}{tail}"))
        }
        2 => ("respaced", respace(rng, &printed)),
        3 | 4 => ("mutated", mutate(rng, &printed)),
        _ => ("soup", soup(rng)),
    };
    json!({"op": "exprparse", "gen": gen, "text": text, "dates": date_table(&text)})
}

pub fn run(opts: &Opts) {
    let mut sink = Sink::new(opts, "exprparse");
    let mut stats: BTreeMap<String, u64> = BTreeMap::new();
    let mut emit = |sink: &mut Sink, mut case: Value| {
        let text = case["text"].as_str().unwrap().to_string();
        case["dates"] = Value::Array(date_table(&text));
        let out = run_case(&case);
        let k = if out.get("panic").is_some() { "PANIC".to_string() } else { out["r"].as_str().unwrap_or("?").to_string() };
        *stats.entry(format!("{}/{}", case["gen"].as_str().unwrap_or("replay"), k)).or_insert(0) += 1;
        sink.put(&case, &out);
    };
    if let Some(path) = &opts.replay {
        for case in read_cases(path) {
            emit(&mut sink, case);
        }
        sink.finish();
        return;
    }
    for case in read_cases("corpus/exprparse.jsonl") {
        emit(&mut sink, case);
    }
    let n = if opts.n > 0 { opts.n } else if opts.thorough { 120_000 } else { 8_000 };
    for i in 0..n {
        let mut rng = case_rng(opts.seed, 24, i as u64);
        let case = gen_case(&mut rng, i);
        emit(&mut sink, case);
    }
    let total = sink.count;
    sink.finish();
    let st = json!({"stream": "exprparse", "cases": total, "histogram": stats});
    std::fs::write(format!("{}/exprparse.stats.json", opts.out), st.to_string()).unwrap();
}
