//! stream `convert`: `format::convert::proto_block_to_token_block` / `token_block_to_proto_block`
//! against their Lean model (C02, C12, C16)
//!
//! A case is a `schema::Block` written as JSON (oneofs that are not set, raw enumeration numbers,
//! optional fields) and the optional external key.  The implementation side is the error class, or
//! the message `token_block_to_proto_block` writes for the block that was read.
use crate::common::*;
use biscuit_auth::builder::Algorithm;
use biscuit_auth::format::convert::{proto_block_to_token_block, proto_snapshot_block_to_token_block, token_block_to_proto_block, token_block_to_proto_snapshot_block};
use biscuit_auth::format::schema;
use biscuit_auth::{KeyPair, PublicKey};
use rand::rngs::StdRng;
use rand::{Rng, SeedableRng};
use serde_json::{json, Value};
use std::collections::BTreeMap;

const NKEYS: u64 = 6;

fn key_of(id: u64) -> PublicKey {
    let mut r = StdRng::seed_from_u64(1000 + id);
    KeyPair::new_with_rng(if id % 2 == 0 { Algorithm::Ed25519 } else { Algorithm::Secp256r1 }, &mut r).public()
}

fn key_id(k: &PublicKey) -> Value {
    for id in 0..NKEYS {
        if &key_of(id) == k {
            return json!(id);
        }
    }
    json!("?")
}

// ------------------------------------------------------------------ JSON -> schema
fn term_from(j: &Value) -> schema::TermV2 {
    use schema::term_v2::Content;
    let content = if j.get("e").is_some() {
        None
    } else if let Some(v) = j.get("v") {
        Some(Content::Variable(v.as_u64().unwrap() as u32))
    } else if let Some(v) = j.get("i") {
        Some(Content::Integer(v.as_i64().unwrap()))
    } else if let Some(v) = j.get("s") {
        Some(Content::String(v.as_u64().unwrap()))
    } else if let Some(v) = j.get("d") {
        Some(Content::Date(v.as_u64().unwrap()))
    } else if let Some(v) = j.get("b") {
        Some(Content::Bytes(hex::decode(v.as_str().unwrap()).unwrap()))
    } else if let Some(v) = j.get("t") {
        Some(Content::Bool(v.as_bool().unwrap()))
    } else if let Some(v) = j.get("set") {
        Some(Content::Set(schema::TermSet { set: v.as_array().unwrap().iter().map(term_from).collect() }))
    } else if j.get("null").is_some() {
        Some(Content::Null(schema::Empty {}))
    } else if let Some(v) = j.get("arr") {
        Some(Content::Array(schema::Array { array: v.as_array().unwrap().iter().map(term_from).collect() }))
    } else if let Some(v) = j.get("map") {
        Some(Content::Map(schema::Map {
            entries: v
                .as_array()
                .unwrap()
                .iter()
                .map(|kv| {
                    let k = &kv[0];
                    let content = if let Some(i) = k.get("i") {
                        Some(schema::map_key::Content::Integer(i.as_i64().unwrap()))
                    } else if let Some(s) = k.get("s") {
                        Some(schema::map_key::Content::String(s.as_u64().unwrap()))
                    } else {
                        None
                    };
                    schema::MapEntry { key: schema::MapKey { content }, value: term_from(&kv[1]) }
                })
                .collect(),
        }))
    } else {
        panic!("bad term {j}")
    };
    schema::TermV2 { content }
}

fn op_from(j: &Value) -> schema::Op {
    use schema::op::Content;
    let content = if j.get("e").is_some() {
        None
    } else if let Some(v) = j.get("val") {
        Some(Content::Value(term_from(v)))
    } else if let Some(v) = j.get("un") {
        Some(Content::Unary(schema::OpUnary { kind: v[0].as_i64().unwrap() as i32, ffi_name: v[1].as_u64() }))
    } else if let Some(v) = j.get("bin") {
        Some(Content::Binary(schema::OpBinary { kind: v[0].as_i64().unwrap() as i32, ffi_name: v[1].as_u64() }))
    } else if let Some(v) = j.get("clo") {
        Some(Content::Closure(schema::OpClosure {
            params: v[0].as_array().unwrap().iter().map(|p| p.as_u64().unwrap() as u32).collect(),
            ops: v[1].as_array().unwrap().iter().map(op_from).collect(),
        }))
    } else {
        panic!("bad op {j}")
    };
    schema::Op { content }
}

fn scope_from(j: &Value) -> schema::Scope {
    use schema::scope::Content;
    let content = if j.get("e").is_some() {
        None
    } else if let Some(v) = j.get("ty") {
        Some(Content::ScopeType(v.as_i64().unwrap() as i32))
    } else {
        Some(Content::PublicKey(j["key"].as_i64().unwrap()))
    };
    schema::Scope { content }
}

fn pred_from(j: &Value) -> schema::PredicateV2 {
    schema::PredicateV2 { name: j["n"].as_u64().unwrap(), terms: j["t"].as_array().unwrap().iter().map(term_from).collect() }
}

fn rule_from(j: &Value) -> schema::RuleV2 {
    schema::RuleV2 {
        head: pred_from(&j["h"]),
        body: j["b"].as_array().unwrap().iter().map(pred_from).collect(),
        expressions: j["e"].as_array().unwrap().iter().map(|e| schema::ExpressionV2 { ops: e.as_array().unwrap().iter().map(op_from).collect() }).collect(),
        scope: j["sc"].as_array().unwrap().iter().map(scope_from).collect(),
    }
}

fn block_from(j: &Value) -> schema::Block {
    schema::Block {
        symbols: j["symbols"].as_array().unwrap().iter().map(|s| s.as_str().unwrap().to_string()).collect(),
        context: j["context"].as_str().map(|s| s.to_string()),
        version: j["version"].as_u64().map(|v| v as u32),
        facts_v2: j["facts"].as_array().unwrap().iter().map(|f| schema::FactV2 { predicate: pred_from(f) }).collect(),
        rules_v2: j["rules"].as_array().unwrap().iter().map(rule_from).collect(),
        checks_v2: j["checks"]
            .as_array()
            .unwrap()
            .iter()
            .map(|c| schema::CheckV2 { queries: c["q"].as_array().unwrap().iter().map(rule_from).collect(), kind: c["k"].as_i64().map(|k| k as i32) })
            .collect(),
        scope: j["sc"].as_array().unwrap().iter().map(scope_from).collect(),
        public_keys: j["keys"]
            .as_array()
            .unwrap()
            .iter()
            .map(|k| match k.as_u64() {
                Some(id) => key_of(id).to_proto(),
                // a key `from_proto` refuses: unknown algorithm, or an ed25519 key of the wrong length
                None => {
                    if k == "alg" {
                        schema::PublicKey { algorithm: 7, key: vec![1; 32] }
                    } else {
                        schema::PublicKey { algorithm: 0, key: vec![1; 5] }
                    }
                }
            })
            .collect(),
    }
}

// ------------------------------------------------------------------ schema -> JSON
fn term_to(t: &schema::TermV2) -> Value {
    use schema::term_v2::Content;
    match &t.content {
        None => json!({"e": 1}),
        Some(Content::Variable(v)) => json!({"v": v}),
        Some(Content::Integer(i)) => json!({"i": i}),
        Some(Content::String(s)) => json!({"s": s}),
        Some(Content::Date(d)) => json!({"d": d}),
        Some(Content::Bytes(b)) => json!({"b": hex::encode(b)}),
        Some(Content::Bool(b)) => json!({"t": b}),
        Some(Content::Set(s)) => json!({"set": s.set.iter().map(term_to).collect::<Vec<_>>()}),
        Some(Content::Null(_)) => json!({"null": 1}),
        Some(Content::Array(a)) => json!({"arr": a.array.iter().map(term_to).collect::<Vec<_>>()}),
        Some(Content::Map(m)) => json!({"map": m.entries.iter().map(|e| {
            let k = match &e.key.content {
                Some(schema::map_key::Content::Integer(i)) => json!({"i": i}),
                Some(schema::map_key::Content::String(s)) => json!({"s": s}),
                None => json!({"e": 1}),
            };
            json!([k, term_to(&e.value)])
        }).collect::<Vec<_>>()}),
    }
}

fn op_to(o: &schema::Op) -> Value {
    use schema::op::Content;
    match &o.content {
        None => json!({"e": 1}),
        Some(Content::Value(t)) => json!({"val": term_to(t)}),
        Some(Content::Unary(u)) => json!({"un": [u.kind, u.ffi_name]}),
        Some(Content::Binary(b)) => json!({"bin": [b.kind, b.ffi_name]}),
        Some(Content::Closure(c)) => json!({"clo": [c.params, c.ops.iter().map(op_to).collect::<Vec<_>>()]}),
    }
}

fn scope_to(s: &schema::Scope) -> Value {
    use schema::scope::Content;
    match &s.content {
        None => json!({"e": 1}),
        Some(Content::ScopeType(i)) => json!({"ty": i}),
        Some(Content::PublicKey(i)) => json!({"key": i}),
    }
}

fn pred_to(p: &schema::PredicateV2) -> Value {
    json!({"n": p.name, "t": p.terms.iter().map(term_to).collect::<Vec<_>>()})
}

fn rule_to(r: &schema::RuleV2) -> Value {
    json!({"h": pred_to(&r.head), "b": r.body.iter().map(pred_to).collect::<Vec<_>>(),
        "e": r.expressions.iter().map(|e| e.ops.iter().map(op_to).collect::<Vec<_>>()).collect::<Vec<_>>(),
        "sc": r.scope.iter().map(scope_to).collect::<Vec<_>>()})
}

fn block_to(b: &schema::Block) -> Value {
    json!({"symbols": b.symbols, "context": b.context, "version": b.version,
        "facts": b.facts_v2.iter().map(|f| pred_to(&f.predicate)).collect::<Vec<_>>(),
        "rules": b.rules_v2.iter().map(rule_to).collect::<Vec<_>>(),
        "checks": b.checks_v2.iter().map(|c| json!({"q": c.queries.iter().map(rule_to).collect::<Vec<_>>(), "k": c.kind})).collect::<Vec<_>>(),
        "sc": b.scope.iter().map(scope_to).collect::<Vec<_>>(),
        "keys": b.public_keys.iter().map(|k| PublicKey::from_proto(k).map(|k| key_id(&k)).unwrap_or(json!("?"))).collect::<Vec<_>>()})
}

fn err_class(e: &biscuit_auth::error::Format) -> String {
    use biscuit_auth::error::Format;
    match e {
        Format::Version { .. } => "version".into(),
        Format::PublicKeyTableOverlap => "keyOverlap".into(),
        Format::SymbolTableOverlap => "symbolOverlap".into(),
        Format::InvalidKeySize(_) | Format::InvalidKey(_) => "badKey".into(),
        Format::DeserializationError(m) => {
            let table: [(&str, &str); 22] = [
                ("ID content enum is empty", "emptyId"),
                ("sets cannot contain variables", "setVariable"),
                ("sets cannot contain other sets", "setSet"),
                ("sets elements must have the same type", "setMixed"),
                ("unary operation is empty", "unaryEmpty"),
                ("binary operation is empty", "binaryEmpty"),
                ("operation is empty", "opEmpty"),
                ("missing ffi name", "ffiMissing"),
                ("ffi name set on a regular unary operation", "unaryFfiExtra"),
                ("ffi name set on a regular binary operation", "binaryFfiExtra"),
                ("invalid check kind", "checkKind"),
                ("check kinds are only supported on datalog v3.1+", "checkKindVersion"),
                ("v3 blocks must not contain a check kind", "checkKindVersion"),
                ("reject if is only supported in datalog v3.3+", "rejectVersion"),
                ("third-party blocks are only supported", "thirdPartyVersion"),
                ("deserialization error: scopes are only supported in datalog v3.1+", "scopesVersion"),
                ("for scope type", "scopeType"),
                ("expected `content` field in Scope", "scopeEmpty"),
                ("unexpected key algorithm", "badKey"),
                ("maps, arrays, null, closures are only supported", "compat33"),
                ("bitwise operators and != are only supported", "compat31"),
                ("check all is only supported", "compatCheckAll"),
            ];
            for (pat, class) in table {
                if m.contains(pat) {
                    return class.to_string();
                }
            }
            if m.contains("scopes are only supported in datalog v3.1+") {
                return "compatScopes".into();
            }
            format!("other:{m}")
        }
        other => format!("other:{:?}", other),
    }
}

fn bad_key(k: &Value) -> schema::PublicKey {
    if k == "alg" {
        schema::PublicKey { algorithm: 7, key: vec![1; 32] }
    } else {
        schema::PublicKey { algorithm: 0, key: vec![1; 5] }
    }
}

fn run_snapshot_case(case: &Value) -> Value {
    let pb = block_from(&case["block"]);
    let external_key = match &case["ext"] {
        Value::Null => None,
        v => Some(v.as_u64().map(|id| key_of(id).to_proto()).unwrap_or_else(|| bad_key(v))),
    };
    let sb = schema::SnapshotBlock { context: pb.context, version: pb.version, facts_v2: pb.facts_v2, rules_v2: pb.rules_v2, checks_v2: pb.checks_v2, scope: pb.scope, external_key };
    let r = std::panic::catch_unwind(|| match proto_snapshot_block_to_token_block(&sb) {
        Err(e) => json!({"err": err_class(&e)}),
        Ok(b) => {
            let back = token_block_to_proto_snapshot_block(&b);
            let ext = back.external_key.as_ref().map(|k| PublicKey::from_proto(k).map(|k| key_id(&k)).unwrap_or(json!("?")));
            let as_block = schema::Block { symbols: vec![], context: back.context, version: back.version, facts_v2: back.facts_v2, rules_v2: back.rules_v2,
                checks_v2: back.checks_v2, scope: back.scope, public_keys: vec![] };
            json!({"ok": block_to(&as_block), "ext": ext, "symbols_in_block": b.symbols.strings().len(), "keys_in_block": b.public_keys.current_offset()})
        }
    });
    match r {
        Ok(v) => v,
        Err(e) => json!({"panic": panic_msg(e)}),
    }
}

pub fn run_case(case: &Value) -> Value {
    if case["kind"] == "snapshot" {
        return run_snapshot_case(case);
    }
    let pb = block_from(&case["block"]);
    let ext = case["ext"].as_u64().map(key_of);
    let r = std::panic::catch_unwind(|| match proto_block_to_token_block(&pb, ext) {
        Err(e) => json!({"err": err_class(&e)}),
        Ok(b) => {
            let back = token_block_to_proto_block(&b);
            json!({"ok": block_to(&back), "ext": b.external_key.as_ref().map(key_id)})
        }
    });
    match r {
        Ok(v) => v,
        Err(e) => json!({"panic": panic_msg(e)}),
    }
}

// ------------------------------------------------------------------ generator
struct G<'a> {
    rng: &'a mut StdRng,
    /// declared version (features are kept under it most of the time)
    version: u64,
    /// probability (per thousand) of a fault at each node
    fault: u32,
    /// features above the declared version are allowed
    loose: bool,
}

impl<'a> G<'a> {
    fn f(&mut self) -> bool {
        self.fault > 0 && self.rng.gen_range(0..1000) < self.fault
    }
    fn v33(&mut self) -> bool {
        self.version >= 6 || (self.loose && self.rng.gen_range(0..6) == 0)
    }
    fn v31(&mut self) -> bool {
        self.version >= 4 || (self.loose && self.rng.gen_range(0..6) == 0)
    }
    fn sym(&mut self) -> u64 {
        *pick(self.rng, &[0u64, 1, 5, 27, 1024, 1025, 1026, 1030])
    }
    fn scalar(&mut self, kind: u32) -> Value {
        match kind {
            0 => json!({"i": *pick(self.rng, &[0i64, 1, -1, 42, i64::MAX, i64::MIN])}),
            1 => json!({"s": self.sym()}),
            2 => json!({"d": *pick(self.rng, &[0u64, 1700000000, u64::MAX])}),
            3 => json!({"b": *pick(self.rng, &["", "00", "0aff"])}),
            _ => json!({"t": self.rng.gen::<bool>()}),
        }
    }
    fn term(&mut self, depth: u32, vars: bool) -> Value {
        if self.f() {
            return json!({"e": 1});
        }
        let top = if depth == 0 { 6 } else { 10 };
        match self.rng.gen_range(0..top) {
            0 if vars => json!({"v": self.rng.gen_range(0..4)}),
            0 | 1 | 2 | 3 | 4 => {
                let k = self.rng.gen_range(0..5);
                self.scalar(k)
            }
            5 => {
                if self.v33() {
                    json!({"null": 1})
                } else {
                    self.scalar(0)
                }
            }
            6 | 7 => {
                // a set: one kind of element, sometimes repeated; faults: a variable, a set, another kind
                let kind = self.rng.gen_range(0..7);
                let n = self.rng.gen_range(0..4);
                let mut xs: Vec<Value> = vec![];
                for _ in 0..n {
                    let x = if kind < 5 {
                        self.scalar(kind)
                    } else if self.v33() {
                        if kind == 5 { json!({"arr": [self.scalar(0)]}) } else { json!({"map": [[{"i": 1}, self.scalar(1)]]}) }
                    } else {
                        self.scalar(0)
                    };
                    xs.push(x);
                }
                if self.f() {
                    let k = self.rng.gen_range(0..5);
                    let bad = match self.rng.gen_range(0..4) {
                        0 => json!({"v": 1}),
                        1 => json!({"set": []}),
                        2 => json!({"e": 1}),
                        _ => self.scalar(k),
                    };
                    let at = self.rng.gen_range(0..=xs.len());
                    xs.insert(at, bad);
                }
                json!({"set": xs})
            }
            8 => {
                if self.v33() {
                    let n = self.rng.gen_range(0..3);
                    json!({"arr": (0..n).map(|_| self.term(depth - 1, vars)).collect::<Vec<_>>()})
                } else {
                    self.scalar(1)
                }
            }
            _ => {
                if self.v33() {
                    let n = self.rng.gen_range(0..3);
                    let es: Vec<Value> = (0..n)
                        .map(|_| {
                            let k = if self.f() {
                                json!({"e": 1})
                            } else if self.rng.gen() {
                                json!({"i": self.rng.gen_range(0..3)})
                            } else {
                                json!({"s": self.sym()})
                            };
                            json!([k, self.term(depth - 1, vars)])
                        })
                        .collect();
                    json!({"map": es})
                } else {
                    self.scalar(0)
                }
            }
        }
    }
    fn pred(&mut self, vars: bool) -> Value {
        let n = self.rng.gen_range(0..3);
        json!({"n": self.sym(), "t": (0..n).map(|_| self.term(2, vars)).collect::<Vec<_>>()})
    }
    fn op(&mut self, depth: u32) -> Value {
        if self.f() {
            return json!({"e": 1});
        }
        match self.rng.gen_range(0..10) {
            0 | 1 | 2 | 3 => json!({"val": self.term(1, true)}),
            4 | 5 => {
                // unary: negate, parens, length always; type and extern from 3.3
                let k: i64 = if self.v33() { self.rng.gen_range(0..5) } else { self.rng.gen_range(0..3) };
                let k = if self.f() { *pick(self.rng, &[5i64, -1, 99]) } else { k };
                let mut ffi = if k == 4 { json!(self.sym()) } else { Value::Null };
                if self.f() {
                    ffi = if ffi.is_null() { json!(1024) } else { Value::Null };
                }
                json!({"un": [k, ffi]})
            }
            6 | 7 | 8 => {
                let k: i64 = if self.v33() {
                    self.rng.gen_range(0..29)
                } else if self.v31() {
                    self.rng.gen_range(0..21)
                } else {
                    self.rng.gen_range(0..17)
                };
                let k = if self.f() { *pick(self.rng, &[29i64, -1, 1000]) } else { k };
                let mut ffi = if k == 28 { json!(self.sym()) } else { Value::Null };
                if self.f() {
                    ffi = if ffi.is_null() { json!(1025) } else { Value::Null };
                }
                json!({"bin": [k, ffi]})
            }
            _ => {
                if depth > 0 && self.v33() {
                    let n = self.rng.gen_range(0..3);
                    json!({"clo": [[self.rng.gen_range(0..4)], (0..n).map(|_| self.op(depth - 1)).collect::<Vec<_>>()]})
                } else {
                    json!({"val": self.scalar(4)})
                }
            }
        }
    }
    fn scope(&mut self) -> Value {
        if self.f() {
            return if self.rng.gen() { json!({"e": 1}) } else { json!({"ty": *pick(self.rng, &[2i64, -1, 7])}) };
        }
        match self.rng.gen_range(0..4) {
            0 => json!({"ty": 0}),
            1 => json!({"ty": 1}),
            _ => json!({"key": *pick(self.rng, &[0i64, 1, 2, 5, -1, i64::MIN, i64::MAX])}),
        }
    }
    fn scopes(&mut self) -> Vec<Value> {
        if self.v31() && self.rng.gen_range(0..3) == 0 {
            let n = self.rng.gen_range(1..3);
            (0..n).map(|_| self.scope()).collect()
        } else {
            vec![]
        }
    }
    fn rule(&mut self) -> Value {
        let nb = self.rng.gen_range(0..3);
        let ne = self.rng.gen_range(0..2);
        json!({"h": self.pred(true), "b": (0..nb).map(|_| self.pred(true)).collect::<Vec<_>>(),
            "e": (0..ne).map(|_| { let n = self.rng.gen_range(0..4); (0..n).map(|_| self.op(2)).collect::<Vec<_>>() }).collect::<Vec<_>>(),
            "sc": self.scopes()})
    }
    fn check(&mut self) -> Value {
        let nq = self.rng.gen_range(0..3);
        let k = match self.rng.gen_range(0..6) {
            0 | 1 | 2 => Value::Null,
            3 => {
                if self.v31() { json!(1) } else { Value::Null }
            }
            4 => {
                if self.v33() { json!(2) } else { Value::Null }
            }
            _ => {
                if self.v31() { json!(0) } else { Value::Null }
            }
        };
        let k = if self.f() { json!(*pick(self.rng, &[3i64, -1, 0, 1, 2])) } else { k };
        json!({"q": (0..nq).map(|_| self.rule()).collect::<Vec<_>>(), "k": k})
    }
}

pub fn gen_case(rng: &mut StdRng, i: usize) -> Value {
    let version = *pick(rng, &[3u64, 3, 4, 5, 6, 6, 6]);
    let faulty = i % 3 == 2;
    let loose = i % 5 == 4;
    let fault = if faulty { *pick(rng, &[15u32, 40, 120]) } else { 0 };
    let mut g = G { rng, version, fault, loose };
    let nf = g.rng.gen_range(0..4);
    let nr = g.rng.gen_range(0..3);
    let nc = g.rng.gen_range(0..3);
    let facts: Vec<Value> = (0..nf).map(|_| g.pred(false)).collect();
    let rules: Vec<Value> = (0..nr).map(|_| g.rule()).collect();
    let checks: Vec<Value> = (0..nc).map(|_| g.check()).collect();
    let sc = g.scopes();
    let mut symbols: Vec<Value> = (0..g.rng.gen_range(0..4)).map(|k| json!(format!("s{k}"))).collect();
    if g.f() || (faulty && g.rng.gen_range(0..12) == 0) {
        symbols.push(json!(*pick(g.rng, &["read", "query", "s0", "time"])));
    }
    let mut keys: Vec<Value> = vec![];
    let nk = g.rng.gen_range(0..3);
    let first = g.rng.gen_range(0..NKEYS);
    for k in 0..nk {
        keys.push(json!((first + k) % NKEYS));
    }
    if g.f() || (faulty && g.rng.gen_range(0..12) == 0) {
        let bad = match g.rng.gen_range(0..3) {
            0 => json!("alg"),
            1 => json!("len"),
            _ => keys.first().cloned().unwrap_or(json!("len")),
        };
        keys.push(bad);
    }
    let mut v = json!(version);
    if faulty && g.rng.gen_range(0..6) == 0 {
        v = pick(g.rng, &[Value::Null, json!(2), json!(7), json!(0), json!(3), json!(4), json!(5)]).clone();
    }
    let ext = if version >= 5 || (faulty && g.rng.gen_range(0..8) == 0) {
        if g.rng.gen_range(0..3) == 0 { json!(g.rng.gen_range(0..NKEYS)) } else { Value::Null }
    } else {
        Value::Null
    };
    let context = if g.rng.gen_range(0..4) == 0 { json!("ctx") } else { Value::Null };
    // every fourth case goes through the reader of authorizer snapshots: the same message without its tables, the
    // external key inside it (sometimes one that `from_proto` refuses)
    let snapshot = i % 4 == 3;
    let ext = if snapshot && faulty && g.rng.gen_range(0..10) == 0 { json!(*pick(g.rng, &["alg", "len"])) } else { ext };
    let ext = if snapshot && ext.is_null() && g.rng.gen_range(0..3) == 0 { json!(g.rng.gen_range(0..NKEYS)) } else { ext };
    json!({"op": "convert", "kind": if snapshot { "snapshot" } else { "block" }, "gen": if faulty { "faulty" } else if loose { "loose" } else { "valid" },
        "block": {"symbols": symbols, "context": context, "version": v, "facts": facts, "rules": rules, "checks": checks, "sc": sc, "keys": keys},
        "ext": ext})
}

pub fn run(opts: &Opts) {
    let mut sink = Sink::new(opts, "convert");
    let mut stats: BTreeMap<String, u64> = BTreeMap::new();
    let mut emit = |sink: &mut Sink, case: Value| {
        let out = run_case(&case);
        let k = if out.get("panic").is_some() {
            "PANIC".to_string()
        } else if out.get("ok").is_some() {
            "ok".to_string()
        } else {
            out["err"].as_str().unwrap_or("?").to_string()
        };
        *stats.entry(format!("{}/{}/{}", case["kind"].as_str().unwrap_or("block"), case["gen"].as_str().unwrap_or("replay"), k)).or_insert(0) += 1;
        sink.put(&case, &out);
    };
    if let Some(path) = &opts.replay {
        for case in read_cases(path) {
            emit(&mut sink, case);
        }
        sink.finish();
        return;
    }
    for case in read_cases("corpus/convert.jsonl") {
        emit(&mut sink, case);
    }
    let n = if opts.n > 0 { opts.n } else if opts.thorough { 60_000 } else { 6_000 };
    for i in 0..n {
        let mut rng = case_rng(opts.seed, 27, i as u64);
        let case = gen_case(&mut rng, i);
        emit(&mut sink, case);
    }
    let total = sink.count;
    sink.finish();
    let st = json!({"stream": "convert", "cases": total, "histogram": stats});
    std::fs::write(format!("{}/convert.stats.json", opts.out), st.to_string()).unwrap();
}
