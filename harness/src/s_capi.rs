//! stream `capi`: the C API mirrors the Rust API and never aborts (C19)
//!
//! A case is a sequence of C API calls over handles (key pairs, public keys, token / block /
//! authorizer builders, tokens, authorizers). The `extern "C"` functions of biscuit-capi are
//! called in-process, in a child (an abort kills the child: the case gets the outcome `abort`
//! with the operation it was on). Next to every call the corresponding Rust API operation runs
//! on mirror objects; the outcome records both results. Buffers handed to the C functions have
//! the size the API reports, framed by canary bytes.
use crate::common::*;
use biscuit_auth::builder::{Algorithm, AuthorizerBuilder, BiscuitBuilder, BlockBuilder};
use biscuit_auth::datalog::SymbolTable;
use biscuit_auth::{Authorizer, Biscuit, KeyPair, PrivateKey, PublicKey};
use biscuit_capi as c;
use rand::rngs::StdRng;
use rand::{Rng, SeedableRng};
use serde_json::{json, Value};
use std::collections::BTreeMap;
use std::ffi::{CStr, CString};

const CANARY: u8 = 0xA5;

struct St {
    kps: Vec<(Option<Box<c::KeyPair>>, Option<KeyPair>)>,
    pks: Vec<(Option<Box<c::PublicKey>>, Option<PublicKey>)>,
    bbs: Vec<(Option<Box<c::BiscuitBuilder>>, Option<BiscuitBuilder>)>,
    blks: Vec<(Option<Box<c::BlockBuilder>>, Option<BlockBuilder>)>,
    toks: Vec<(Option<Box<c::Biscuit>>, Option<Biscuit>)>,
    azbs: Vec<(Option<Box<c::AuthorizerBuilder>>, Option<AuthorizerBuilder>)>,
    azs: Vec<(Option<Box<c::Authorizer>>, Option<Authorizer>)>,
    bytes: Vec<Vec<u8>>,
}

fn cstr(p: *const std::os::raw::c_char) -> Option<String> {
    if p.is_null() {
        None
    } else {
        Some(unsafe { CStr::from_ptr(p) }.to_string_lossy().to_string())
    }
}

fn owned_cstr(p: *const std::os::raw::c_char) -> Option<String> {
    let s = cstr(p);
    if !p.is_null() {
        unsafe { c::string_free(p as *mut _) };
    }
    s
}

fn last_error() -> Value {
    json!({"kind": c::error_kind() as u32, "message": cstr(c::error_message())})
}

fn idx(v: &Value, k: &str) -> Option<usize> {
    v.get(k).and_then(|x| x.as_i64()).and_then(|i| if i < 0 { None } else { Some(i as usize) })
}

fn alg_of(a: u64) -> (c::SignatureAlgorithm, Algorithm) {
    if a == 0 { (c::SignatureAlgorithm::Ed25519, Algorithm::Ed25519) } else { (c::SignatureAlgorithm::Secp256r1, Algorithm::Secp256r1) }
}

/// a buffer of `n` bytes framed by canaries; returns (written prefix, canaries intact)
fn with_buffer<F: FnOnce(*mut u8) -> usize>(n: usize, f: F) -> (usize, Vec<u8>, bool) {
    let mut buf = vec![CANARY; n + 32];
    let written = f(unsafe { buf.as_mut_ptr().add(16) });
    let intact = buf[..16].iter().all(|b| *b == CANARY) && buf[16 + n..].iter().all(|b| *b == CANARY);
    (written, buf[16..16 + written.min(n)].to_vec(), intact)
}

fn rust_err(e: &biscuit_auth::error::Token) -> String {
    e.to_string()
}

fn run_op(st: &mut St, op: &Value) -> Value {
    let name = op["op"].as_str().unwrap();
    unsafe {
        match name {
            "kp_new" => {
                let seed = hex::decode(op["seed"].as_str().unwrap()).unwrap();
                let (ca, ra) = alg_of(op["alg"].as_u64().unwrap());
                let ck = c::key_pair_new(seed.as_ptr(), seed.len(), ca);
                let rk = if seed.len() == 32 {
                    let mut s = [0u8; 32];
                    s.copy_from_slice(&seed);
                    let mut rng: StdRng = SeedableRng::from_seed(s);
                    Some(KeyPair::new_with_rng(ra, &mut rng))
                } else {
                    None
                };
                let out = json!({"c": ck.is_some(), "r": rk.is_some(), "err": if ck.is_none() { last_error() } else { Value::Null }});
                st.kps.push((ck, rk));
                out
            }
            "kp_public" => {
                let k = idx(op, "kp").and_then(|i| st.kps.get(i));
                let cp = c::key_pair_public(k.and_then(|k| k.0.as_deref()));
                let rp = k.and_then(|k| k.1.as_ref()).map(|k| k.public());
                let out = json!({"c": cp.is_some(), "r": rp.is_some(), "err": if cp.is_none() { last_error() } else { Value::Null }});
                st.pks.push((cp, rp));
                out
            }
            "kp_roundtrip" => {
                let k = idx(op, "kp").and_then(|i| st.kps.get(i));
                let ck = k.and_then(|k| k.0.as_deref());
                let (n, bytes, intact) = with_buffer(32, |p| c::key_pair_serialize(ck, p));
                let r = k.and_then(|k| k.1.as_ref()).map(|k| k.private().to_bytes().to_vec());
                let (ca, _) = alg_of(op["alg"].as_u64().unwrap());
                let mut b2 = bytes.clone();
                b2.resize(32, 0);
                let back = c::key_pair_deserialize(b2.as_mut_ptr(), ca);
                // keys are opaque in C: the imported pair is the same pair if a token it signs verifies under the
                // public key of the original pair on the Rust side
                let same = match (back.as_deref(), k.and_then(|k| k.1.as_ref())) {
                    (Some(b), Some(rk)) => {
                        let mut bb = c::biscuit_builder();
                        let f = CString::new("k(1)").unwrap();
                        c::biscuit_builder_add_fact(bb.as_deref_mut(), f.as_ptr());
                        let seed = [3u8; 32];
                        let t = c::biscuit_builder_build(bb.as_deref(), Some(b), seed.as_ptr(), 32);
                        let size = c::biscuit_serialized_size(t.as_deref());
                        let (_, tb, _) = with_buffer(size, |p| c::biscuit_serialize(t.as_deref(), p));
                        Biscuit::from(&tb, rk.public()).is_ok()
                    }
                    _ => false,
                };
                json!({"c": {"n": n, "bytes": hex::encode(&bytes), "intact": intact, "back": back.is_some()}, "r": {"bytes": r.map(hex::encode)}, "same": same})
            }
            "pk_serialize" => {
                let k = idx(op, "pk").and_then(|i| st.pks.get(i));
                let ck = k.and_then(|k| k.0.as_deref());
                let r = k.and_then(|k| k.1.as_ref()).map(|k| k.to_bytes());
                // the API documents a 32-byte buffer
                let (n, bytes, intact) = with_buffer(32, |p| c::public_key_serialize(ck, p));
                json!({"c": {"n": n, "bytes": hex::encode(&bytes), "intact": intact}, "r": {"bytes": r.map(hex::encode)}})
            }
            "pk_deserialize" => {
                let mut b = hex::decode(op["hex"].as_str().unwrap()).unwrap();
                b.resize(32, 0);
                let (ca, ra) = alg_of(op["alg"].as_u64().unwrap());
                let cp = c::public_key_deserialize(b.as_mut_ptr(), ca);
                let rp = PublicKey::from_bytes(&b, ra).ok();
                let out = json!({"c": cp.is_some(), "r": rp.is_some(), "err": if cp.is_none() { last_error() } else { Value::Null }});
                st.pks.push((cp, rp));
                out
            }
            "bb_new" => {
                st.bbs.push((c::biscuit_builder(), Some(BiscuitBuilder::new())));
                json!({"c": true, "r": true})
            }
            "bb_add" | "blk_add" | "azb_add" => {
                let what = op["what"].as_str().unwrap();
                let text = op["text"].as_str().unwrap();
                let ct = CString::new(text).unwrap();
                let i = idx(op, "b");
                let (cr, rr): (bool, Option<Result<(), String>>) = match name {
                    "bb_add" => {
                        let e = i.and_then(|i| st.bbs.get_mut(i));
                        match e {
                            Some((cb, rb)) => {
                                let cr = match what {
                                    "fact" => c::biscuit_builder_add_fact(cb.as_deref_mut(), ct.as_ptr()),
                                    "rule" => c::biscuit_builder_add_rule(cb.as_deref_mut(), ct.as_ptr()),
                                    "check" => c::biscuit_builder_add_check(cb.as_deref_mut(), ct.as_ptr()),
                                    "context" => c::biscuit_builder_set_context(cb.as_deref_mut(), ct.as_ptr()),
                                    _ => c::biscuit_builder_set_root_key_id(cb.as_deref_mut(), op["n"].as_u64().unwrap() as u32),
                                };
                                let rr = rb.take().map(|b| {
                                    let keep = b.clone();
                                    let r = match what {
                                        "fact" => b.fact(text),
                                        "rule" => b.rule(text),
                                        "check" => b.check(text),
                                        "context" => Ok(b.context(text.to_string())),
                                        _ => Ok(b.root_key_id(op["n"].as_u64().unwrap() as u32)),
                                    };
                                    match r {
                                        Ok(b) => {
                                            *rb = Some(b);
                                            Ok(())
                                        }
                                        Err(e) => {
                                            *rb = Some(keep);
                                            Err(rust_err(&e))
                                        }
                                    }
                                });
                                (cr, rr)
                            }
                            None => {
                                let cr = match what {
                                    "fact" => c::biscuit_builder_add_fact(None, ct.as_ptr()),
                                    "rule" => c::biscuit_builder_add_rule(None, ct.as_ptr()),
                                    "check" => c::biscuit_builder_add_check(None, ct.as_ptr()),
                                    "context" => c::biscuit_builder_set_context(None, ct.as_ptr()),
                                    _ => c::biscuit_builder_set_root_key_id(None, 1),
                                };
                                (cr, None)
                            }
                        }
                    }
                    "blk_add" => {
                        let e = i.and_then(|i| st.blks.get_mut(i));
                        match e {
                            Some((cb, rb)) => {
                                let cr = match what {
                                    "fact" => c::block_builder_add_fact(cb.as_deref_mut(), ct.as_ptr()),
                                    "rule" => c::block_builder_add_rule(cb.as_deref_mut(), ct.as_ptr()),
                                    "check" => c::block_builder_add_check(cb.as_deref_mut(), ct.as_ptr()),
                                    _ => c::block_builder_set_context(cb.as_deref_mut(), ct.as_ptr()),
                                };
                                let rr = rb.take().map(|b| {
                                    let keep = b.clone();
                                    let r = match what {
                                        "fact" => b.fact(text),
                                        "rule" => b.rule(text),
                                        "check" => b.check(text),
                                        _ => Ok(b.context(text.to_string())),
                                    };
                                    match r {
                                        Ok(b) => {
                                            *rb = Some(b);
                                            Ok(())
                                        }
                                        Err(e) => {
                                            *rb = Some(keep);
                                            Err(rust_err(&e))
                                        }
                                    }
                                });
                                (cr, rr)
                            }
                            None => (c::block_builder_add_fact(None, ct.as_ptr()), None),
                        }
                    }
                    _ => {
                        let e = i.and_then(|i| st.azbs.get_mut(i));
                        match e {
                            Some((cb, rb)) => {
                                let cr = match what {
                                    "fact" => c::authorizer_builder_add_fact(cb.as_deref_mut(), ct.as_ptr()),
                                    "rule" => c::authorizer_builder_add_rule(cb.as_deref_mut(), ct.as_ptr()),
                                    "check" => c::authorizer_builder_add_check(cb.as_deref_mut(), ct.as_ptr()),
                                    _ => c::authorizer_builder_add_policy(cb.as_deref_mut(), ct.as_ptr()),
                                };
                                let rr = rb.take().map(|b| {
                                    let keep = b.clone();
                                    let r = match what {
                                        "fact" => b.fact(text),
                                        "rule" => b.rule(text),
                                        "check" => b.check(text),
                                        _ => b.policy(text),
                                    };
                                    match r {
                                        Ok(b) => {
                                            *rb = Some(b);
                                            Ok(())
                                        }
                                        Err(e) => {
                                            *rb = Some(keep);
                                            Err(rust_err(&e))
                                        }
                                    }
                                });
                                (cr, rr)
                            }
                            None => (c::authorizer_builder_add_fact(None, ct.as_ptr()), None),
                        }
                    }
                };
                json!({"c": cr, "r": rr.as_ref().map(|r| r.is_ok()), "err": if !cr { last_error() } else { Value::Null }, "rerr": rr.and_then(|r| r.err())})
            }
            "bb_build" => {
                let seed = hex::decode(op["seed"].as_str().unwrap()).unwrap();
                let b = idx(op, "b").and_then(|i| st.bbs.get(i));
                let k = idx(op, "kp").and_then(|i| st.kps.get(i));
                let ct = c::biscuit_builder_build(b.and_then(|b| b.0.as_deref()), k.and_then(|k| k.0.as_deref()), seed.as_ptr(), seed.len());
                let rt = match (b.and_then(|b| b.1.clone()), k.and_then(|k| k.1.as_ref()), seed.len() == 32) {
                    (Some(b), Some(k), true) => {
                        let mut s = [0u8; 32];
                        s.copy_from_slice(&seed);
                        let mut rng: StdRng = SeedableRng::from_seed(s);
                        Some(b.build_with_rng(k, SymbolTable::default(), &mut rng))
                    }
                    _ => None,
                };
                let rerr = rt.as_ref().and_then(|r| r.as_ref().err().map(rust_err));
                let out = json!({"c": ct.is_some(), "r": rt.as_ref().map(|r| r.is_ok()), "err": if ct.is_none() { last_error() } else { Value::Null }, "rerr": rerr});
                st.toks.push((ct, rt.and_then(|r| r.ok())));
                out
            }
            "tok_sizes" => {
                let t = idx(op, "t").and_then(|i| st.toks.get(i));
                let cs = c::biscuit_serialized_size(t.and_then(|t| t.0.as_deref()));
                let css = c::biscuit_sealed_size(t.and_then(|t| t.0.as_deref()));
                let rs = t.and_then(|t| t.1.as_ref()).map(|t| t.to_vec().map(|v| v.len()).unwrap_or(0));
                let rss = t.and_then(|t| t.1.as_ref()).map(|t| t.seal().and_then(|s| s.to_vec()).map(|v| v.len()).unwrap_or(0));
                json!({"c": {"size": cs, "sealed": css}, "r": {"size": rs, "sealed": rss}})
            }
            "tok_serialize" | "tok_serialize_sealed" => {
                let t = idx(op, "t").and_then(|i| st.toks.get(i));
                let ct = t.and_then(|t| t.0.as_deref());
                let sealed = name == "tok_serialize_sealed";
                let n = if sealed { c::biscuit_sealed_size(ct) } else { c::biscuit_serialized_size(ct) };
                let (written, bytes, intact) = with_buffer(n, |p| if sealed { c::biscuit_serialize_sealed(ct, p) } else { c::biscuit_serialize(ct, p) });
                let r = t.and_then(|t| t.1.as_ref()).map(|t| if sealed { t.seal().and_then(|s| s.to_vec()) } else { t.to_vec() });
                let rb = r.and_then(|r| r.ok());
                // sealing draws no randomness; serialization is deterministic: the bytes must be the same
                let out = json!({"c": {"announced": n, "written": written, "bytes": hex::encode(&bytes), "intact": intact}, "r": {"bytes": rb.as_ref().map(hex::encode)}});
                st.bytes.push(bytes);
                out
            }
            "tok_from" => {
                let bytes = idx(op, "bytes").and_then(|i| st.bytes.get(i)).cloned().unwrap_or_else(|| hex::decode(op["hex"].as_str().unwrap_or("00")).unwrap());
                let k = idx(op, "pk").and_then(|i| st.pks.get(i));
                let ct = c::biscuit_from(bytes.as_ptr(), bytes.len(), k.and_then(|k| k.0.as_deref()));
                let rt = k.and_then(|k| k.1.as_ref()).map(|k| Biscuit::from(&bytes, *k));
                let rerr = rt.as_ref().and_then(|r| r.as_ref().err().map(rust_err));
                let out = json!({"c": ct.is_some(), "r": rt.as_ref().map(|r| r.is_ok()), "err": if ct.is_none() { last_error() } else { Value::Null }, "rerr": rerr});
                st.toks.push((ct, rt.and_then(|r| r.ok())));
                out
            }
            "tok_info" => {
                let t = idx(op, "t").and_then(|i| st.toks.get(i));
                let ct = t.and_then(|t| t.0.as_deref());
                let rt = t.and_then(|t| t.1.as_ref());
                let n = c::biscuit_block_count(ct);
                let mut ctx = vec![];
                let mut src = vec![];
                for i in 0..(n as u32 + 2) {
                    ctx.push(owned_cstr(c::biscuit_block_context(ct, i)));
                    src.push(owned_cstr(c::biscuit_print_block_source(ct, i)));
                }
                let print = owned_cstr(c::biscuit_print(ct));
                let r = rt.map(|t| {
                    let rc = t.context();
                    json!({
                        "count": t.block_count(),
                        "context": (0..t.block_count() + 2).map(|i| rc.get(i).cloned().flatten()).collect::<Vec<_>>(),
                        "source": (0..t.block_count() + 2).map(|i| t.print_block_source(i).ok()).collect::<Vec<_>>(),
                        "print": t.print(),
                    })
                });
                json!({"c": {"count": n, "context": ctx, "source": src, "print": print}, "r": r})
            }
            "blk_new" => {
                st.blks.push((Some(c::create_block()), Some(BlockBuilder::new())));
                json!({"c": true, "r": true})
            }
            "tok_append" => {
                let t = idx(op, "t").and_then(|i| st.toks.get(i));
                let b = idx(op, "blk").and_then(|i| st.blks.get(i));
                let k = idx(op, "kp").and_then(|i| st.kps.get(i));
                let ct = c::biscuit_append_block(t.and_then(|t| t.0.as_deref()), b.and_then(|b| b.0.as_deref()), k.and_then(|k| k.0.as_deref()));
                let rt = match (t.and_then(|t| t.1.as_ref()), b.and_then(|b| b.1.clone()), k.and_then(|k| k.1.as_ref())) {
                    (Some(t), Some(b), Some(k)) => Some(t.append_with_keypair(k, b)),
                    _ => None,
                };
                let rerr = rt.as_ref().and_then(|r| r.as_ref().err().map(rust_err));
                let out = json!({"c": ct.is_some(), "r": rt.as_ref().map(|r| r.is_ok()), "err": if ct.is_none() { last_error() } else { Value::Null }, "rerr": rerr});
                st.toks.push((ct, rt.and_then(|r| r.ok())));
                out
            }
            "azb_new" => {
                st.azbs.push((c::authorizer_builder(), Some(AuthorizerBuilder::new())));
                json!({"c": true, "r": true})
            }
            "azb_build" => {
                let b = idx(op, "b").and_then(|i| st.azbs.get_mut(i));
                let (cb, rb) = match b {
                    Some((cb, rb)) => (cb.take(), rb.take()),
                    None => (None, None),
                };
                let t = idx(op, "t").and_then(|i| st.toks.get(i));
                let (ca, ra) = match t {
                    Some((Some(ct), rt)) => (c::authorizer_builder_build(cb, ct), match (rb, rt) {
                        (Some(b), Some(t)) => Some(b.build(t)),
                        _ => None,
                    }),
                    _ => (c::authorizer_builder_build_unauthenticated(cb), rb.map(|b| b.build_unauthenticated())),
                };
                let rerr = ra.as_ref().and_then(|r| r.as_ref().err().map(rust_err));
                let out = json!({"c": ca.is_some(), "r": ra.as_ref().map(|r| r.is_ok()), "err": if ca.is_none() { last_error() } else { Value::Null }, "rerr": rerr});
                st.azs.push((ca, ra.and_then(|r| r.ok())));
                out
            }
            "tok_authorizer" => {
                let t = idx(op, "t").and_then(|i| st.toks.get(i));
                let ca = c::biscuit_authorizer(t.and_then(|t| t.0.as_deref()));
                let ra = t.and_then(|t| t.1.as_ref()).map(|t| t.authorizer());
                let out = json!({"c": ca.is_some(), "r": ra.as_ref().map(|r| r.is_ok()), "err": if ca.is_none() { last_error() } else { Value::Null }});
                st.azs.push((ca, ra.and_then(|r| r.ok())));
                out
            }
            "az_authorize" => {
                let a = idx(op, "a").and_then(|i| st.azs.get_mut(i));
                match a {
                    Some((ca, ra)) => {
                        let cr = c::authorizer_authorize(ca.as_deref_mut());
                        let err = if cr { Value::Null } else { last_error() };
                        let checks: Vec<Value> = if cr { vec![] } else {
                            (0..c::error_check_count() + 1).map(|i| json!({"id": c::error_check_id(i), "block": c::error_check_block_id(i), "rule": cstr(c::error_check_rule(i)), "authorizer": c::error_check_is_authorizer(i)})).collect()
                        };
                        let rr = ra.as_mut().map(|a| a.authorize());
                        let rchecks: Option<Vec<Value>> = rr.as_ref().and_then(|r| r.as_ref().err()).map(|e| {
                            use biscuit_auth::error::*;
                            let cs = match e {
                                Token::FailedLogic(Logic::Unauthorized { checks, .. }) | Token::FailedLogic(Logic::NoMatchingPolicy { checks }) => checks.clone(),
                                _ => vec![],
                            };
                            let mut v: Vec<Value> = cs.iter().map(|c| match c {
                                FailedCheck::Block(b) => json!({"id": b.check_id as u64, "block": b.block_id as u64, "rule": b.rule, "authorizer": false}),
                                FailedCheck::Authorizer(a) => json!({"id": a.check_id as u64, "block": u64::MAX, "rule": a.rule, "authorizer": true}),
                            }).collect();
                            v.push(json!({"id": u64::MAX, "block": u64::MAX, "rule": null, "authorizer": false}));
                            v
                        });
                        let print = owned_cstr(c::authorizer_print(ca.as_deref_mut()));
                        let rprint = ra.as_ref().map(|a| a.print_world());
                        json!({"c": {"ok": cr, "checks": checks, "print": print}, "r": {"ok": rr.as_ref().map(|r| r.is_ok()), "checks": rchecks, "print": rprint}, "err": err, "rerr": rr.and_then(|r| r.err().map(|e| rust_err(&e)))})
                    }
                    None => {
                        let cr = c::authorizer_authorize(None);
                        let p = c::authorizer_print(None);
                        json!({"c": {"ok": cr, "print": cstr(p)}, "r": null, "err": last_error()})
                    }
                }
            }
            other => json!({"unknown_op": other}),
        }
    }
}

pub fn run_case(case: &Value, out_dir: &str, case_index: usize) -> Value {
    let mut st = St { kps: vec![], pks: vec![], bbs: vec![], blks: vec![], toks: vec![], azbs: vec![], azs: vec![], bytes: vec![] };
    let mut outs = vec![];
    for (i, op) in case["ops"].as_array().unwrap().iter().enumerate() {
        note_progress(out_dir, "capi", &format!("case {case_index} op {i} {}", op["op"].as_str().unwrap_or("?")));
        let r = std::panic::catch_unwind(std::panic::AssertUnwindSafe(|| run_op(&mut st, op)));
        match r {
            Ok(v) => outs.push(v),
            Err(e) => {
                outs.push(json!({"panic": panic_msg(e)}));
                break;
            }
        }
    }
    json!({"ops": outs})
}

const FACTS: [&str; 8] = ["right(\"file1\", \"read\")", "user(1234)", "f([1, 2], {\"a\": true})", "g(hex:0102, 2020-01-01T00:00:00Z)", "broken(", "h($x)", "", "k(\"é\\\"\")"];
const RULES: [&str; 5] = ["can($f) <- right($f, \"read\")", "r($x) <- user($x), $x > 10", "bad($x) <- ", "r2($y) <- user($x)", "ok(1) <- user($u) trusting previous"];
const CHECKS: [&str; 7] = ["check if right($f, \"read\")", "check if user($u), $u == 1234", "check all user($u), $u > 0", "reject if user(0)", "check if", "check if nope(1)", "check if user($u), 1 / 0 === 1"];
const POLICIES: [&str; 5] = ["allow if true", "allow if user($u)", "deny if true", "allow", "allow if nope(1)"];

fn gen_case(rng: &mut StdRng) -> Value {
    let mut ops: Vec<Value> = vec![];
    let seed = |rng: &mut StdRng| hex::encode((0..32).map(|_| rng.gen::<u8>()).collect::<Vec<u8>>());
    // key pairs: 0 = root (either algorithm), 1 = next-key pair, 2 = bad seed length
    let root_alg = rng.gen_range(0..2u64);
    ops.push(json!({"op": "kp_new", "seed": seed(rng), "alg": root_alg}));
    ops.push(json!({"op": "kp_new", "seed": seed(rng), "alg": rng.gen_range(0..2u64)}));
    if rng.gen_range(0..4) == 0 {
        ops.push(json!({"op": "kp_new", "seed": "0102", "alg": 0}));
    }
    ops.push(json!({"op": "kp_public", "kp": 0}));
    if rng.gen_range(0..4) == 0 {
        ops.push(json!({"op": "kp_public", "kp": -1}));
    }
    ops.push(json!({"op": "kp_roundtrip", "kp": 0, "alg": root_alg}));
    // 32-byte key buffers: only ed25519 public keys fit; for secp256r1 (known finding: the call aborts)
    // the call is made in one case out of six, as the last operation
    if root_alg == 0 {
        ops.push(json!({"op": "pk_serialize", "pk": 0}));
    }
    let secp_pk_serialize = root_alg == 1 && rng.gen_range(0..6) == 0;
    // token builder, with failing additions in the middle
    ops.push(json!({"op": "bb_new"}));
    for _ in 0..rng.gen_range(1..5) {
        let what = *pick(rng, &["fact", "fact", "rule", "check", "context", "root_key_id"]);
        let text = match what {
            "fact" => *pick(rng, &FACTS),
            "rule" => *pick(rng, &RULES),
            "check" => *pick(rng, &CHECKS),
            _ => "ctx",
        };
        ops.push(json!({"op": "bb_add", "b": if rng.gen_range(0..12) == 0 { -1 } else { 0 }, "what": what, "text": text, "n": rng.gen_range(0..5)}));
    }
    ops.push(json!({"op": "bb_build", "b": 0, "kp": 0, "seed": seed(rng)}));
    if rng.gen_range(0..5) == 0 {
        ops.push(json!({"op": "bb_build", "b": *pick(rng, &[-1i64, 0]), "kp": *pick(rng, &[-1i64, 0]), "seed": if rng.gen() { "00".to_string() } else { seed(rng) }}));
    }
    let t0 = 0;
    ops.push(json!({"op": "tok_sizes", "t": t0}));
    ops.push(json!({"op": "tok_info", "t": t0}));
    // a block, appended
    ops.push(json!({"op": "blk_new"}));
    for _ in 0..rng.gen_range(1..4) {
        let what = *pick(rng, &["fact", "rule", "check", "context"]);
        let text = match what {
            "fact" => *pick(rng, &FACTS),
            "rule" => *pick(rng, &RULES),
            "check" => *pick(rng, &CHECKS),
            _ => "block ctx",
        };
        ops.push(json!({"op": "blk_add", "b": if rng.gen_range(0..12) == 0 { -1 } else { 0 }, "what": what, "text": text}));
    }
    ops.push(json!({"op": "tok_append", "t": t0, "blk": 0, "kp": 1}));
    let ntoks = ops.iter().filter(|o| matches!(o["op"].as_str().unwrap(), "bb_build" | "tok_append")).count();
    let t1 = ntoks - 1;
    ops.push(json!({"op": "tok_info", "t": t1}));
    ops.push(json!({"op": "tok_sizes", "t": t1}));
    ops.push(json!({"op": "tok_serialize", "t": t1}));
    ops.push(json!({"op": "tok_serialize_sealed", "t": t1}));
    ops.push(json!({"op": "tok_from", "bytes": 0, "pk": 0}));
    ops.push(json!({"op": "tok_from", "bytes": 1, "pk": 0}));
    if rng.gen_range(0..3) == 0 {
        ops.push(json!({"op": "tok_from", "hex": "0a0b0c", "pk": *pick(rng, &[-1i64, 0])}));
        ops.push(json!({"op": "tok_append", "t": -1, "blk": 0, "kp": 1}));
        ops.push(json!({"op": "tok_serialize", "t": -1}));
        ops.push(json!({"op": "tok_info", "t": -1}));
    }
    // the sealed copy cannot be attenuated
    let sealed_tok = ntoks + 1;
    ops.push(json!({"op": "tok_append", "t": sealed_tok, "blk": 0, "kp": 1}));
    // authorizer
    ops.push(json!({"op": "azb_new"}));
    for _ in 0..rng.gen_range(1..5) {
        let what = *pick(rng, &["fact", "rule", "check", "policy", "policy"]);
        let text = match what {
            "fact" => *pick(rng, &FACTS),
            "rule" => *pick(rng, &RULES),
            "check" => *pick(rng, &CHECKS),
            _ => *pick(rng, &POLICIES),
        };
        ops.push(json!({"op": "azb_add", "b": if rng.gen_range(0..12) == 0 { -1 } else { 0 }, "what": what, "text": text}));
    }
    ops.push(json!({"op": "azb_build", "b": 0, "t": if rng.gen_range(0..4) == 0 { -1 } else { t1 as i64 }}));
    ops.push(json!({"op": "az_authorize", "a": 0}));
    if rng.gen_range(0..4) == 0 {
        ops.push(json!({"op": "azb_build", "b": -1, "t": -1}));
        ops.push(json!({"op": "az_authorize", "a": -1}));
    }
    ops.push(json!({"op": "tok_authorizer", "t": *pick(rng, &[-1i64, t1 as i64])}));
    if secp_pk_serialize {
        ops.push(json!({"op": "pk_serialize", "pk": 0}));
    }
    json!({"op": "capi", "ops": ops})
}

/// whether the Rust builders accept the text: the parser is an input of the handle model, not part of it
fn annotate(case: &mut Value) {
    for op in case["ops"].as_array_mut().unwrap() {
        let name = op["op"].as_str().unwrap().to_string();
        if !name.ends_with("_add") {
            continue;
        }
        let text = op["text"].as_str().unwrap().to_string();
        let valid = match (name.as_str(), op["what"].as_str().unwrap()) {
            (_, "context") | (_, "root_key_id") => true,
            ("azb_add", "fact") => AuthorizerBuilder::new().fact(text.as_str()).is_ok(),
            ("azb_add", "rule") => AuthorizerBuilder::new().rule(text.as_str()).is_ok(),
            ("azb_add", "check") => AuthorizerBuilder::new().check(text.as_str()).is_ok(),
            ("azb_add", _) => AuthorizerBuilder::new().policy(text.as_str()).is_ok(),
            (_, "fact") => BlockBuilder::new().fact(text.as_str()).is_ok(),
            (_, "rule") => BlockBuilder::new().rule(text.as_str()).is_ok(),
            (_, _) => BlockBuilder::new().check(text.as_str()).is_ok(),
        };
        op["valid"] = json!(valid);
    }
}

pub fn child(opts: &Opts) {
    let cases = read_cases(opts.replay.as_ref().unwrap());
    let mut i = opts.n;
    let out = opts.out.clone();
    child_loop(opts, "capi", &cases, |case| {
        let r = run_case(case, &out, i);
        i += 1;
        r
    });
}

pub fn run(opts: &Opts) {
    let cases: Vec<Value> = match &opts.replay {
        Some(p) => read_cases(p),
        None => {
            let mut cases = read_cases("corpus/capi.jsonl");
            let n = if opts.n > 0 { opts.n } else if opts.thorough { 4_000 } else { 300 };
            for i in 0..n {
                let mut rng = case_rng(opts.seed, 19, i as u64);
                let mut c = gen_case(&mut rng);
                annotate(&mut c);
                cases.push(c);
            }
            cases
        }
    };
    let outs = run_in_children(opts, "capi", &cases);
    let mut sink = Sink::new(opts, "capi");
    let mut stats: BTreeMap<String, u64> = BTreeMap::new();
    for (c, o) in cases.iter().zip(outs.iter()) {
        let k = if o.get("abort").is_some() { "ABORT" } else { "completed" };
        *stats.entry(k.to_string()).or_insert(0) += 1;
        for op in c["ops"].as_array().unwrap() {
            *stats.entry(format!("op/{}", op["op"].as_str().unwrap())).or_insert(0) += 1;
        }
        sink.put(c, o);
    }
    let total = sink.count;
    sink.finish();
    let st = json!({"stream": "capi", "cases": total, "histogram": stats});
    std::fs::write(format!("{}/capi.stats.json", opts.out), st.to_string()).unwrap();
    let _ = PrivateKey::from_bytes(&[1u8; 32], Algorithm::Ed25519);
}
