#!/bin/sh
# usage: tools/try_seed.sh <patch.diff> <Cxx> [tier]   — applies a seeded change to /repo, runs the check, undoes it
set -u
patch="$1"; pid="$2"; tier="${3:-quick}"
git -C /repo apply "$patch" || { echo "patch does not apply"; exit 2; }
/verif/bin/check "$pid" --tier "$tier"
rc=$?
git -C /repo checkout -- .
echo "exit=$rc"
