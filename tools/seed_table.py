#!/usr/bin/env python3
"""prints the table of DESIGN.md section 10 from seeded/*/meta.json and seeded/MATRIX.txt"""
import json, os, re
root = os.path.join(os.path.dirname(os.path.abspath(__file__)), "..", "seeded")
res = {}
for l in open(os.path.join(root, "MATRIX.txt")):
    p = l.split()
    if len(p) >= 2:
        res[p[0]] = p[1]
print("| seed | what was changed | quick check of its property |")
print("|---|---|---|")
for d in sorted(os.listdir(root)):
    m = os.path.join(root, d, "meta.json")
    if not os.path.exists(m):
        continue
    try:
        s = json.load(open(m)).get("summary", "")
    except Exception:
        s = ""
    s = re.sub(r"\s+", " ", str(s)).replace("|", "/")
    if len(s) > 230:
        s = s[:227] + "..."
    print("| %s | %s | %s |" % (d, s, res.get(d, "?")))
