#!/bin/sh
# usage: tools/try_one.sh <Cxx-n> [tier]  — one seeded change against the check of its property; appends a line to seeded/MATRIX.txt
id="$1"; tier="${2:-quick}"; pid=${id%-*}; d=/verif/seeded/$id; out=/verif/seeded/MATRIX.txt
if ! git -C /repo apply --check "$d/patch.diff" 2>/dev/null; then echo "$id does-not-apply"; exit 2; fi
git -C /repo apply "$d/patch.diff"
res=$(/verif/bin/check "$pid" --tier "$tier" 2>&1 | grep -v '^KNOWN')
git -C /repo checkout -- .
nviol=$(echo "$res" | grep -c '^VIOLATION')
last=$(echo "$res" | tail -1)
grep -v "^$id " "$out" > "$out.tmp"; mv "$out.tmp" "$out"
if [ "$nviol" -gt 0 ]; then echo "$id caught violations=$nviol | $last" >> "$out"; else echo "$id MISSED | $last" >> "$out"; fi
sort -o "$out" "$out"
grep "^$id " "$out"
echo "$res" | grep '^VIOLATION' | head -3
