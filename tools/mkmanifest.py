#!/usr/bin/env python3
"""Writes MANIFEST.json from tools/props.py (claimed properties) and the fixed list of property ids."""
import json, os, sys
ROOT = os.path.dirname(os.path.dirname(os.path.abspath(__file__)))
sys.path.insert(0, os.path.join(ROOT, "tools"))
import props as P

ids = [json.loads(l)["id"] for l in open(os.path.join(ROOT, "properties.jsonl")) if l.strip()]
checks = []
na = []
for pid in ids:
    spec = P.PROPS.get(pid)
    if not spec or spec.get("unclaimed"):
        na.append({"property_id": pid, "reason": (spec or {}).get("unclaimed", "not yet covered by the Lean model: theorems and correspondence stream for this property are still being built (see DESIGN.md section 7); the technique applies, the work is not finished")})
        continue
    checks.append({
        "property_id": pid,
        "quick_cmd": "bin/check %s --tier quick" % pid,
        "thorough_cmd": "bin/check %s --tier thorough" % pid,
        "evidence_file": "evidence/%s.json" % pid,
        "replay_cmd_template": "bin/check %s --replay {path}" % pid,
        "engine": "lean-proof+correspondence",
        "level_claimed": {"category": spec.get("level", "proof"), "text": spec["level_text"], "design_ref": "DESIGN.md section 7, " + pid},
        "level_note": spec["level_note"],
        "technique": spec.get("technique", "Lean 4 theorems over an executable model; model tied to /repo by translator-regenerated definitions and a differential correspondence stream"),
    })
m = {
    "version": 1,
    "setup_cmd": "bin/setup",
    "hooks": {
        "guard": "--cfg biscuit_verif",
        "enable": "harness/.cargo/config.toml sets rustflags = [\"--cfg\", \"biscuit_verif\"] for the harness build only",
        "baseline_off_cmd": "cd /repo && cargo test --workspace --no-fail-fast --offline",
        "source_commits": P.HOOK_COMMITS,
        "add_only": True,
    },
    "engines": [{"name": "lean-proof+correspondence", "path": "bin/check", "serves_properties": [c["property_id"] for c in checks],
                 "kind_free_text": "Lean 4 project lean/ (model + theorems, lake build, #print axioms audit, leanchecker in thorough) + tools/extract.py translator + Rust harness harness/ vs compiled Lean driver bmdrv over JSON lines"}],
    "checks": checks,
    "not_applicable": na,
    "notes": "See DESIGN.md. Every claimed property is decided by Lean theorems about an executable model; the tie to /repo is checked on every run (translator + correspondence). known_findings.jsonl lists genuine defects recorded or fixed.",
}
json.dump(m, open(os.path.join(ROOT, "MANIFEST.json"), "w"), indent=1)
print("claimed:", [c["property_id"] for c in checks])
