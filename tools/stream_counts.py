#!/usr/bin/env python3
"""rewrites the `cases` column of the streams table in DESIGN.md (section 5.2) from the stats files of the last quick run"""
import glob, json, os, re
root = os.path.join(os.path.dirname(os.path.abspath(__file__)), "..")
counts = {}
for f in glob.glob(os.path.join(root, "work", "C*", "*.stats.json")):
    try:
        d = json.load(open(f))
        counts[d["stream"]] = max(counts.get(d["stream"], 0), int(d["cases"]))
    except Exception:
        pass
p = os.path.join(root, "DESIGN.md")
s = open(p, encoding="utf-8").read()
def fmt(n):
    return "{:,}".format(n).replace(",", " ")
def repl(m):
    name = m.group(1)
    if name in counts:
        return "%s| %s | %s%s |" % (m.group(0)[: m.group(0).index("|", 2)], m.group(2).strip(), fmt(counts[name]), m.group(4))
    return m.group(0)
out = []
for line in s.split("\n"):
    m = re.match(r"^\| `(\w+)`( \(\+ `chainpost`\))? \| ([^|]+) \| ([\d  ]+)( \+)? \|", line)
    if m and m.group(1) in counts:
        head = "| `%s`%s | %s | %s%s |" % (m.group(1), m.group(2) or "", m.group(3).strip(), fmt(counts[m.group(1)]), m.group(5) or "")
        line = head + line[m.end():]
    out.append(line)
open(p, "w", encoding="utf-8").write("\n".join(out))
print(counts)
