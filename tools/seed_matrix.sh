#!/bin/sh
# usage: tools/seed_matrix.sh [out]  — every seeded change against the check of its property; one line per seed
out="${1:-/verif/seeded/MATRIX.txt}"
: > "$out"
for d in /verif/seeded/C*-*; do
  id=$(basename "$d"); pid=${id%-*}
  if ! git -C /repo apply --check "$d/patch.diff" 2>/dev/null; then echo "$id does-not-apply" >> "$out"; continue; fi
  git -C /repo apply "$d/patch.diff"
  res=$(/verif/bin/check "$pid" 2>&1 | grep -v '^KNOWN')
  rc=$?
  git -C /repo checkout -- .
  nviol=$(echo "$res" | grep -c '^VIOLATION')
  last=$(echo "$res" | tail -1)
  if [ "$nviol" -gt 0 ]; then echo "$id caught violations=$nviol | $last" >> "$out"; else echo "$id MISSED | $last" >> "$out"; fi
done
cat "$out"
