#!/bin/bash
# usage: tools/confirm_seed.sh <Cxx> <n>
# Confirms a seeded change in its scratch worktree /tmp/seed/<Cxx>/wt: with the patch the workspace
# builds, the existing suite passes and the demo fails; without the patch the demo passes.
# On success copies it to /verif/seeded/<Cxx>-<n>/.
set -u
pid="$1"; n="$2"
wt=/tmp/seed/$pid/wt; out=/tmp/seed/$pid/out
export CARGO_NET_OFFLINE=true CARGO_TARGET_DIR=$wt/target
cd "$wt" || exit 2
git checkout -q -- . ; git clean -qfd -e target
log=/tmp/seed/$pid/confirm$n.log; : > "$log"
demo_dst=biscuit-auth/tests/seed_demo.rs
grep -q "biscuit_capi\|biscuit-capi" "$out/demo$n.rs" && demo_dst=biscuit-capi/tests/seed_demo.rs
pkg=$(echo $demo_dst | cut -d/ -f1)
run_demo() { mkdir -p $(dirname $demo_dst); cp "$out/demo$n.rs" $demo_dst; cargo test --offline -p $pkg --test seed_demo >>"$log" 2>&1; rc=$?; rm -f $demo_dst; return $rc; }
run_demo; clean_rc=$?
git apply "$out/patch$n.diff" || { echo "$pid-$n: patch does not apply"; exit 2; }
cargo test --workspace --no-fail-fast --offline >"$log.suite" 2>&1
# failures of the pinned suite: doctests are not part of it, token::tests::basic is flaky in the baseline;
# a test that fails under load (1 ms default time limit) is retried alone three times
suite_fail=0
for t in $(grep -E "^test .* \.\.\. FAILED" "$log.suite" | grep -v "token::tests::basic" | grep -v " - (line" | awk '{print $2}'); do
  ok=0
  for k in 1 2 3; do cargo test --offline -p biscuit-auth --lib "$t" -- --exact >>"$log" 2>&1 && ok=1 && break; done
  [ $ok -eq 0 ] && suite_fail=$((suite_fail+1))
done
suite_ok=$(grep -c "^test result: ok" "$log.suite")
run_demo; mut_rc=$?
git checkout -q -- . ; git clean -qfd -e target
echo "$pid-$n: demo clean rc=$clean_rc, demo with patch rc=$mut_rc, suite failures with patch=$suite_fail (ok groups $suite_ok)"
if [ $clean_rc -eq 0 ] && [ $mut_rc -ne 0 ] && [ $suite_fail -eq 0 ] && [ $suite_ok -gt 0 ]; then
  d=/verif/seeded/$pid-$n; mkdir -p $d
  cp "$out/patch$n.diff" $d/patch.diff; cp "$out/demo$n.rs" $d/demo.rs
  python3 - "$out/meta$n.json" $d/meta.json "$pid" "$clean_rc" "$mut_rc" <<'PY'
import json,sys
try: m=json.load(open(sys.argv[1]))
except Exception as e: m={"summary":"(meta unreadable: %s)"%e}
m["property"]=sys.argv[3]
m["confirmed"]={"by":"tools/confirm_seed.sh in the scratch worktree","demo_without_change_rc":int(sys.argv[4]),"demo_with_change_rc":int(sys.argv[5]),"existing_suite_with_change":"no new failures (cargo test --workspace --no-fail-fast --offline)"}
json.dump(m,open(sys.argv[2],"w"),indent=1)
PY
  echo "$pid-$n: CONFIRMED -> $d"
else
  echo "$pid-$n: NOT confirmed"
fi
