"""Per-property configuration of bin/check: which Lean module carries the
theorems, which correspondence streams tie it to /repo, how outcomes are
compared, what counts as a non-trivial case, implementation-only oracles,
known-finding matching and shrinking."""
import copy, json

PROPS = {
    "C06": {
        "module": "BiscuitModel.Props.C06",
        "streams": ["expr"],
        "level_text": "Machine-checked Lean 4 theorems about an executable model of the expression stack machine: totality for every op sequence and closure depth (eval_total), exact checked-arithmetic laws, a complete type-strictness table (type_strict / allowed_not_type_error over all 29 operators x all term kinds), laziness and closure binding/shadowing lemmas. The model is tied to the code on every run by evaluating the real Expression::evaluate and the compiled model on the same ~90k (quick) cases including the exhaustive operator table; any difference is reported with the input.",
        "level_note": "Trusted: Lean kernel (axioms propext, Classical.choice, Quot.sound only), the harness/driver JSON glue, the generator's reach. Panics are runtime behaviour: observed via catch_unwind in the stream, not provable in the model. Regex compared only on literal patterns; extern functions not modelled.",
        "rule": "expr stream: exhaustive unary/binary/closure operator tables over a 47-value representative set, then seeded type-directed expressions (nested closures, i64 extremes, unknown symbols) and malformed op sequences; a case is non-trivial when model and implementation were compared and the outcome is a value or an error other than InvalidStack; distinct = distinct (ops, bindings) JSON",
        "trusted_base": ["tools/extract.py (default symbol table, offset)", "harness/src/s_expr.rs generator and canonicalisation", "lean/Codec.lean JSON glue",
                         "regex crate (only literal patterns are compared)", "extern functions are not modelled"],
        "assumptions": ["a panic in Expression::evaluate is observed through the stream (catch_unwind), not modelled", "regex: only patterns made of [A-Za-z0-9_/ ] are compared (substring semantics)"],
    },
    "C05": {
        "module": "BiscuitModel.Props.C05",
        "streams": ["engine", "origins"],
        "level_text": "Lean 4 theorems about an executable model of datalog::World: the fixpoint loop is sound and complete with respect to an inductive derivability relation (run_sound, run_complete, run_exact), insertion-order independent (run_order_independent), provenance is exactly the union of used origins plus the rule's block (applyRule_origin, combine_origin), a rule with an unbound head variable never produces a fact (unbound_head_no_facts). No bound on rules, facts, terms, origins or iterations. The model is tied to the code by running datalog::World (public API: add_fact/add_rule/run_with_limits/query_*) and the compiled model on the same generated programs with arbitrary origin and trust sets and comparing the complete (origin, fact) sets, iteration counts and query answers.",
        "level_note": "Trusted: Lean kernel (standard axioms only), harness/driver JSON glue, generator reach. Derivability is defined through one application of a rule to an arbitrary finite set of derivable pairs (applyRule), whose own behaviour is tied to Rule::apply by the stream. Expression errors and limits are separate outcomes: exactness is stated for runs that end with Ok.",
        "rule": "origins stream: TrustedOrigins::from_scopes on generated scope lists, default origins, current block or authorizer and key -> blocks maps, compared with trustedFromScopes of the model (every case is non-trivial when it has at least one scope); engine stream: seeded programs over 7 typed predicates (arity 0-3, constants of every term type), facts with origin sets drawn from {0,1,2,3,authorizer}, rules with arbitrary trusted sets, shared variables, expressions, recursive closure rules over chains, plus limit triples at k-1/k/k+1 of the measured need; non-trivial = implementation and model both finished Ok after at least one productive iteration; distinct = distinct case JSON",
        "trusted_base": ["harness/src/s_engine.rs generator and canonicalisation (facts sorted as JSON)", "lean/Codec.lean, lean/Driver.lean JSON glue"],
        "assumptions": ["which of several expression errors is reported is order-dependent in the code; only the error class is compared", "wall-clock limit not exercised in this stream (max_time = 1h)"],
    },
    "C04": {
        "module": "BiscuitModel.Props.C04",
        "streams": ["authz", "origins"],
        "level_text": "Lean 4 theorems about an executable model of AuthorizerBuilder::build + Authorizer::authorize: the trust rule stated outright (trustedFromScopes_spec, visible_spec, defaultTrusted_spec), the three check kinds (check_one_spec, check_all_spec, check_reject_spec: reject passes only when no alternative matches), failed checks in declaration order with their index (failedChecks_spec), policies tried in order (firstPolicy_spec), accepted iff no failed check and the first matching policy is allow (decide_ok_iff, failed_check_refuses). The world the decision is taken on is the exact least fixpoint by C05's run_exact. Tie: tokens of 1-4 blocks (first/third party, scopes on blocks, rules, checks) built through the public API and authorized with generated authorizers; the complete outcome (policy index, exact failed-check list, iteration and fact counts, query/query_all answers, also after a serialization round trip and after sealing) is compared with the compiled model on every case.",
        "level_note": "Trusted: Lean kernel (standard axioms), harness generator reach, JSON glue, the interning traversal in Model/Intern (tied by the stream). Theorems about checks are stated for evaluations without expression errors (the property's quantifier); cases where an expression error and a match coexist are order-dependent in the code (C11) and are skipped by the comparator (counted in the evidence).",
        "rule": "origins stream: TrustedOrigins::from_scopes on generated scope lists, default origins, current block or authorizer and key -> blocks maps, compared with trustedFromScopes of the model (every case is non-trivial when it has at least one scope); authz stream: corpus first, then seeded tokens with 1-4 blocks, third-party blocks signed by a pool of three keys, block/rule/check/policy scopes in {authority, previous, key}, checks of the three kinds with 1-3 alternatives, ordered allow/deny policies; non-trivial = compared case whose token has a check or a policy alternative with a non-empty body; distinct = distinct case JSON",
        "trusted_base": ["harness/src/prog.rs, s_authz.rs", "lean/Codec.lean, lean/Driver.lean", "Model/Intern.lean traversal order (checked by the stream, not by a theorem)"],
        "assumptions": ["error-free programs under non-binding limits for the check theorems", "wall-clock limit not exercised (max_time = 1h)"],
    },
    "C03": {
        "module": "BiscuitModel.Props.C03",
        "streams": ["atten"],
        "level_text": "Lean 4 theorems: attenuation_monotone_partial - END TO END over the executable authorizer of the model (Model/Authorizer.authorize: world construction, the fixpoint run, authorizer checks, authority checks, policies, the other blocks' checks): if the token extended by a first-party block is authorized by policy i, the original token's run stays within its limits and no expression fails while the extended token's checks and policies are evaluated, then the original token is authorized by the same policy i; attenuation_monotone_third_party_partial (THE SAME for a block carrying an external signature by a key k, provided no scope of the earlier blocks or of the authorizer names k - a scope naming k trusts, by design, whatever k signed; both are corollaries of attenuation_monotone_core, whose hypothesis OldSame says that every earlier element trusts the same origins with and without the appended block in the key map: oldSame_first_party, oldSame_unnamed via Lemmas/KeyMapCongr: the key map enters evaluation only through trustedFromScopes), worlds_vis_same (what the original world shows to anyone who does not trust the new block is what the extended world shows them), old_rules_avoid (no rule, check or policy that existed before trusts the appended block). They rest on theorems over the inductive derivability relation of C05 (which the engine computes exactly, run_exact): derives_mono (a block never removes a fact), derives_restrict (every pair derivable with the new block whose origin avoids it was derivable without it: base facts of the block carry its id, its rules stamp its id, old rules cannot see it), visible_facts_unchanged (for every trusted set not containing the new block the visible world is identical), old_scopes_exclude_new (no scope of an earlier block or of the authorizer reaches a newly appended block unless it names a key registered for it; previous stops at the element's own block). Tie: every generated (token, appended block, authorizer) is authorized with and without the block on the implementation and on the compiled model, full outcomes compared; and an implementation-only oracle checks the property itself (accepted extended => accepted original by the same policy; failed checks only grow) on every case where nobody names the new block's key.",
        "level_note": "Trusted: Lean kernel (standard axioms), harness generator reach, JSON glue. Stated for evaluations without expression errors and non-binding limits (the property's quantifier). The end-to-end theorems are named _partial because they exclude evaluations with expression errors (whose outcome depends on iteration order: C11); a third-party block is covered whenever no earlier scope names its key (a scope that names the key is the designed way to trust it).",
        "rule": "atten stream: seeded tokens of 1-3 blocks plus one appended first- or third-party block (facts/rules over the same predicates as the authority, scopes incl. previous, keys shared with earlier blocks), generated authorizers; both tokens authorized on both sides; non-trivial = both outcomes are decisions (ok/nomatch/unauth); distinct = distinct case JSON",
        "trusted_base": ["harness/src/prog.rs, s_atten.rs, s_authz.rs", "lean/Codec.lean, lean/Driver.lean", "tools/props.py oracle_atten (used only to search for a failing input)"],
        "assumptions": ["error-free programs under non-binding limits"],
        "open_obligations": [],
    },
    "C11": {
        "module": "BiscuitModel.Props.C11",
        "streams": ["determ"],
        "level_text": "Lean 4 theorems with the iteration order of the hash stores as an explicit parameter (two orders = two lists with the same members): outcome_order_independent_partial (same facts and rules inserted in any order, both runs Ok, no binding of a check/policy fails => same acceptance, policy index and failed-check list; built on C05 run_order_independent and Lemmas/Congr.decide_same), failed_checks_in_declaration_order, and order_dependent_witness + witness_has_error showing that the full statement (including which error is reported) is false of the code. Tie: every generated case is built and authorized 16 (quick) / 128 (thorough) times from scratch with fresh hash seeds, permuted insertion order of authorizer facts and rules, reload and clone(); the set of distinct outcomes must be a singleton equal to the model's outcome unless the model marks the case as order-dependent (a matching and a failing binding coexist, or two different errors).",
        "level_note": "Partial by nature: hash seeds are runtime behaviour; the model carries the order as a parameter. The order-dependence of error reporting is a recorded known finding (known_findings.jsonl C11-error-vs-match-order), replayed on every run.",
        "rule": "determ stream: authz-style cases (half of them with expressions that fail for some bindings), N fresh builds each; non-trivial = case with at least one check or policy whose body is non-empty and a decision outcome; distinct = distinct case JSON",
        "trusted_base": ["harness/src/s_determ.rs", "RandomState reseeding per HashMap in std (fresh builds give fresh iteration orders)"],
        "assumptions": ["iteration orders actually exercised are those std's RandomState produces in N builds"],
    },
    "C09": {
        "module": "BiscuitModel.Props.C09",
        "streams": ["untrusted"],
        "level_text": "Lean 4 theorems about the checked accessors that stand between untrusted data and an index (Model/Untrusted, Model/Symbols): block_access_checked (Biscuit::block / UnverifiedBiscuit::block succeed exactly for the indices below the block count - for EVERY index), block_access_error, block_access_value, getSymbol_total (a symbol id resolves exactly when it is a default symbol or an index into the table), getSymbol_gap (the ids between the 28 default symbols and the offset 1024 are unknown symbols), getSymbol_beyond, tempSymbol_beyond. Tie: stream untrusted, run in a child process with one flushed outcome line per case (a dead or stuck child gives the case it was on the outcome abort and a new child continues): random and damaged bytes / text into every entry point that takes external data (token bytes and base64, verified, unverified and deprecated; third-party requests and blocks; authorizer snapshots; saved policies; key strings, raw bytes, PEM and DER); correctly signed tokens (the harness signs with the keys it holds) whose block contents are adversarial - out-of-range symbol, key and variable ids incl. the gap 28..1023, malformed op sequences, unknown enum values, empty oneofs, wrong versions, duplicated or emptied tables, deep nesting, unbounded rules - followed by the full sweep on what loads (every block accessor for indices 0..count+2, print, Display, context, revocation ids, serialization, seal, append, third-party request and append, authorizer build, authorize / query under limits, print_world, dump, dump_code, save, snapshot; the same on UnverifiedBiscuit plus verify); adversarial third-party block contents signed by the external key; adversarial authorizer snapshots (iterations, limits, generated facts with unknown symbols, odd origins, adversarial blocks and policies) followed by every operation on what restores; Datalog source with invalid keys, arithmetic edge cases, catastrophic regexes, unbound parameters and nesting from 10 to 40000 levels. The model predicts the verdict of every block accessor for every index of the sweep and of every symbol lookup; the oracle requires a value or an error, never a panic, abort or hang.",
        "level_note": "Partial by nature: panics, aborts, stack exhaustion and hangs are runtime behaviour which the model cannot exhibit; absence of them is established only as far as the stream reaches. What is proved is that the modelled accessors take the error branch exactly where the Rust code would otherwise index out of range.",
        "rule": "untrusted stream: corpus (a fixed finding and the known one) first, then seeded cases in the proportions entry points 2 : signed adversarial tokens 4 : third-party contents 1 : snapshots 1 : Datalog source 1, one symbol-lookup probe every 40 cases; non-trivial = anything but an entry-point case that is refused; distinct = distinct case JSON",
        "trusted_base": ["harness/src/s_untrusted.rs (generator, signing fixture craft_token, child-process isolation and watchdog)", "tools/props.py cmp_untrusted, oracle_untrusted", "lean/Codec.lean, lean/Driver.lean runUntrusted"],
        "assumptions": [],
    },
    "C10": {
        "module": "BiscuitModel.Props.C10",
        "streams": ["limits", "engine"],
        "level_text": "Lean 4 theorems about the engine loop and the authorizer's cumulative accounting: run_ok_within_facts / run_ok_within_iterations (a run that ends Ok held fewer facts than max_facts at every point it was checked, including the facts present before the first iteration, and made fewer productive iterations than max_iterations, also for 0), limit_hit_is_error, run_never_out_of_fuel (the loop ends by itself), timeout_at_checkpoint (abstract clock), and history_within_budget / successful_call_within_budget / exhausted_budget_refuses: over ANY history of authorize/query/query_all calls on one authorizer, including histories where earlier calls hit a limit, every successful call leaves counters within the budget. Tie: generated programs with limit triples at 0, 1, k-1, k, k+1 of the measured need and call histories of length 1-4 are run on the implementation and the compiled model; per call the result, iterations() and fact_count() are compared. Time is exercised with the cfg-guarded fake clock and a `tick` extern function: an implementation-only oracle checks that no call succeeds once the calls together have spent max_time.",
        "level_note": "Partial for time: the model's clock is abstract (Limits.timeoutAt); wall-clock promptness and the cost of a single iteration are runtime behaviour no model here can exhibit. Time cases are decided by the oracle on the implementation only (search support), not by a theorem. Known finding recorded: the time budget restarts after a failed run.",
        "rule": "limits stream: corpus (the three fixed findings) first; seeded authz-style programs, first with a generous budget to measure need, then three boundary budgets each, with histories of 1-4 calls; every fourth program also as a fake-clock time case; non-trivial = a history with a limit outcome or with more than one call; distinct = distinct case JSON",
        "trusted_base": ["harness/src/s_limits.rs", "hook H1 (fake clock, biscuit-auth/src/time.rs under cfg biscuit_verif)", "tools/props.py oracle_limits"],
        "assumptions": ["time: only what passes through the fake clock is observed"],
    },
    "C01": {
        "module": "BiscuitModel.Props.C01",
        "streams": ["chain"],
        "level_text": "Lean 4 theorems over an abstract signature scheme: verify_iff_chain (acceptance under a root key is exactly: structural checks, authority signature under the root over the authority payload, every block signed by the previous next key over a payload containing its bytes, next key, algorithm, version and - version 1 - the actual previous signature and the external signature, external signatures over bytes + previous signature, proof = secret of the last next key or seal over last block + key + signature), and under an explicit unforgeability hypothesis: wrong_root_rejected, accepted_authority_is_honest, accepted_blocks_are_honest (every signature of an accepted token under a protected key is one an honest party made over exactly that payload), accepted_seal_is_honest, truncation_needs_earlier_secret; blockV1_injective_fixed / authorityV1_injective / externalV1_injective / sealed_injective / blockV0_injective (each payload determines every field it binds - version, block bytes, algorithm, next key, previous signature, external signature - whenever the two keys, the two previous signatures and the two external signatures have the lengths their algorithms fix; nothing is assumed about the block bytes), spliced_block_refused (under unforgeability and signatures that bind one message: a version-1 signature made by a protected key for block b0 after previous signature p0 is accepted, anywhere in any token, only on a block with b0's bytes, next key and external signature, placed after a block whose signature is p0 - moving, reordering or altering it is refused). The payload layouts in the theorems are regenerated from crypto/mod.rs on every run. Tie: tokens built through the API (both algorithms for root, block and external keys, signature versions 0 and 1, third-party blocks, sealed or not) and EVERY single structured mutation of the decoded wire message (each field of each block, swaps, drops, duplicates, splices between two tokens, proof manipulations, root key id, other root key, ECDSA (r, n-s)) are presented to Biscuit::from, from_base64 and UnverifiedBiscuit::verify; the compiled model predicts accept/reject with the ideal scheme whose valid signatures are exactly those of the honest tokens over the model-computed payloads.",
        "level_note": "Cryptographic assumptions (unforgeability, signature lengths) are hypotheses of the theorems, not theorems. Payload injectivity is proved for fields whose lengths the algorithms fix (keys; ed25519 signatures); for two DER-encoded ECDSA signatures of different lengths it is open. Known finding recorded: secp256r1 signatures (r, n-s) are accepted.",
        "rule": "chain stream: seeded histories (1-4 blocks, two independent tokens per case for splicing); every stage presented as is and under another root; all single structured mutations of the last two stages; non-trivial = a mutation case or an honest token with at least one appended block; distinct = distinct case JSON",
        "trusted_base": ["tools/extract.py (payload layouts, schema field numbers regenerated from crypto/mod.rs and schema.proto)", "harness/src/s_chain.rs (history generator, structured mutations, prost decoding of the wire message)", "harness/src/s_convert.rs (message generator, schema <-> JSON, error classes read from the messages)", "tools/extract.py gen_convert", "ed25519-dalek / p256 verifiers used independently of biscuit-auth to check real signatures over the model's payload bytes", "lean/Codec.lean, lean/Driver.lean"],
        "assumptions": ["unforgeability of ed25519 / ECDSA P-256 for keys whose secret the adversary does not hold", "prost decodes the mutated wire message as the library does"],
        "open_obligations": ["payload injectivity when two DER-encoded ECDSA signatures of different lengths are compared (lengths are not fixed by the algorithm)"],
    },
    "C02": {
        "module": "BiscuitModel.Props.C02",
        "more_modules": ["BiscuitModel.Props.C02Convert", "BiscuitModel.Props.C02Normal"],
        "streams": ["chain", "convert", "symbols"],
        "level_text": "Lean 4 theorems: block_round_trip (Props/C02Convert, about Model/Convert - the model of format/convert.rs: EVERY block that passes the version gate and whose sets and maps are what BTreeSet / BTreeMap hold, with sets of one kind of element, is read back from the protobuf message token_block_to_proto_block writes for it as exactly that block: symbols, context, version, facts, rules with expressions and scopes, checks with their kinds, block scopes, public keys, external key; through term_rt / op_rt / rule_rt / check_rt and the operator, check-kind, scope-type and set-element tables regenerated from convert.rs and schema.rs on every run: unary_table, binary_table, check_kind_table, ffi_name_checked), reader_normal_form (Props/C02Normal: whatever message proto_block_to_token_block accepts - repeated set elements, repeated map keys, explicit default check kinds - the block it returns is written and read back as itself, so further serialization round trips change nothing), accepted_content_ok, mixed_set_refused (the witness that a set of two kinds of elements is written and then refused); wire_round_trip (decoding the protobuf encoding of ANY container - authority block, any number of blocks, third-party signatures, versions, root key id, either proof - gives the container back, for fields that fit their length prefixes; the decoder follows prost: any field order, last occurrence wins, repeated fields accumulate; built on varint_round_trip, decFields_fuel_irrel, decAll_fVarint / decAll_fBytes / decAll_repeated of Lemmas/WireDec; on every honest token of the chain stream the model decoder is run on the presented bytes and must give what prost gives); payloads_eq_spec and the gen_*_eq_spec family (each of the seven payload layouts regenerated from crypto/mod.rs equals the layout written from the Biscuit specification), unknown_signature_version_refused, new_token_verifies / append_verifies / seal_verifies and built_tokens_verify (every token produced by ANY history of build, append, append-third-party and seal operations, with any algorithms, verifies under the issuing root key - induction over the history, assuming only that a signature made with a secret verifies under its public key), the signature-version rule (sigVersion_third_party, _datalog33, _non_ed25519, _ed25519, _never_back, _le_one). Tie: every stage of every generated history must be accepted by Biscuit::from, from_base64 and UnverifiedBiscuit::from+verify, expose the same revocation ids / external keys / root key id / block count as the model, re-serialize to identical bytes, equal the model's own protobuf encoding byte for byte, and every signature in it must verify - with ed25519-dalek / p256 used directly, not through biscuit-auth - over the payload bytes the Lean model computes.",
        "level_note": "Scheme correctness is a hypothesis. The wire decoder is modelled for the container messages (Model/WireDec); for the block message the conversion between the decoded message and the block is modelled (Model/Convert, tied by the convert stream), prost's byte level of that message is not. PublicKey::from_proto is a parameter of the conversion model (the harness says which keys it refuses).",
        "rule": "symbols stream (see C12): every step of histories that mix Biscuit and UnverifiedBiscuit appends, in memory and reloaded; chain stream (see C01); for C02 the honest stages are the cases that matter: non-trivial = honest stage with at least one appended block. convert stream: corpus first, then generated schema::Block messages (valid for their declared version; with features above it; faulty: unset oneofs, enumeration numbers out of range, ffi names missing or superfluous, ill-typed sets, check kinds, scope types, duplicate or malformed keys, default symbols, versions out of range, third-party below 3.2), every fourth through the snapshot reader; non-trivial = refused, or at least one rule or check",
        "trusted_base": ["tools/extract.py (payload layouts, schema field numbers regenerated from crypto/mod.rs and schema.proto)", "harness/src/s_chain.rs (history generator, structured mutations, prost decoding of the wire message)", "harness/src/s_convert.rs (message generator, schema <-> JSON, error classes read from the messages)", "tools/extract.py gen_convert", "ed25519-dalek / p256 verifiers used independently of biscuit-auth to check real signatures over the model's payload bytes", "lean/Codec.lean, lean/Driver.lean"],
        "assumptions": ["EdDSA / ECDSA correctness"],
        "open_obligations": [],
    },
    "C07": {
        "module": "BiscuitModel.Props.C07",
        "streams": ["chain", "authz"],
        "level_text": "Lean 4 theorems: append3p_checks (append_third_party succeeds only for the expected key and a signature that verifies over the block bytes and the signature of the block the token currently ends with), externalV1_injective, third_party_position_bound (under unforgeability for the external key, a response signed for one position is accepted only where the token ends with that very signature), third_party_checked_in_place (in any accepted token every external signature verifies, under the key stated in the token, over the block's own bytes and the signature of the block that actually precedes it - so moving, re-attributing or altering the block breaks verification), keyMap_spec and third_party_trust_only_by_key (a block is in the trusted origins of another block's element only by default trust, by previous of a later block, or by a scope naming a key that signed it). Tie: chain stream - genuine responses offered to the right token, with a wrong expected key, to another token, one block later; through UnverifiedBiscuit with replaced key, flipped signature, payload or signature of another response, then verified; plus all structured mutations of tokens containing third-party blocks; authz stream - third-party blocks signed by a pool of three keys (one key signing several blocks) with and without trusting scopes.",
        "level_note": "Cryptographic assumptions are hypotheses. The isolation of a third-party block's symbol and public-key tables is part of C12's model (Model/Intern interns third-party blocks from their own tables) and is tied by the authz and symbols streams, not by a theorem here.",
        "rule": "chain stream restricted to third-party cases (tpv, tpu and chain cases whose subject has an external signature); authz stream as in C04; non-trivial = any tp case or an authz case with a third-party block",
        "trusted_base": ["tools/extract.py (payload layouts regenerated from crypto/mod.rs)", "harness/src/s_chain.rs (third-party response cases), s_authz.rs (trust by key)", "lean/Codec.lean, lean/Driver.lean"],
        "assumptions": ["unforgeability for the external key"],
    },
    "C08": {
        "module": "BiscuitModel.Props.C08",
        "streams": ["chain", "authz"],
        "level_text": "Lean 4 theorems: sealed_is_final (every append, third-party append, third-party request and re-seal on a sealed container is refused, whatever its arguments), sealed_history_refused, seal_is_sealed, seal_preserves (authority, blocks, root key id, revocation identifiers and external keys unchanged - hence the same authorization result, since C04's authorize reads only the blocks), seal_verifies, seal_binds_last_block (an accepted sealed token's final signature is a signature by the last next key over the last block's bytes, next key and signature) with seal_payload_injective. Tie: chain stream (sealed stages, all structured mutations of sealed tokens incl. seal flip/extend/replace, block add/remove/alter) and authz stream (every case is also authorized after seal(): outcome must be identical).",
        "level_note": "Cryptographic assumptions are hypotheses. Operations after seal on the implementation side are exercised by the chain stream's seal stages and by the authz stream; every operation (append, append_third_party, third_party_request, seal) is also attempted on sealed tokens through Biscuit and UnverifiedBiscuit, in memory and reloaded, and must be refused as the model's state machine says.",
        "rule": "chain stream (see C01) restricted in spirit to sealed stages; authz stream compares authorize on token, reloaded token and sealed token",
        "trusted_base": ["tools/extract.py (payload layouts, schema field numbers regenerated from crypto/mod.rs and schema.proto)", "harness/src/s_chain.rs (history generator, structured mutations, prost decoding of the wire message)", "harness/src/s_convert.rs (message generator, schema <-> JSON, error classes read from the messages)", "tools/extract.py gen_convert", "ed25519-dalek / p256 verifiers used independently of biscuit-auth to check real signatures over the model's payload bytes", "lean/Codec.lean, lean/Driver.lean"],
        "assumptions": ["unforgeability for the last next key"],
            },
    "C12": {
        "module": "BiscuitModel.Props.C12",
        "streams": ["symbols", "authz"],
        "level_text": "Lean 4 theorems about the token's symbol and public-key tables as a state machine over build / append / append-third-party: internBlockBuild_good and its family (Lemmas/Intern: interning any block - terms nested to any depth, expressions, closures, scopes - only appends to the tables and keeps them free of duplicates and default symbols), reload_step, reload_third_party, inv_build, inv_append, inv_append_third_party and history_inv (at every step of ANY history the tables kept in memory are exactly what deserialization rebuilds from the blocks' declarations; a third-party block neither reads nor extends them), redeclared_default_refused, redeclared_symbol_refused, redeclared_key_refused. Tie: histories mixing Biscuit and UnverifiedBiscuit (append, third-party append, conversions, in-memory verify) with blocks built from colliding strings, default symbols and a pool of keys used both in scopes and as external keys; after EVERY step the per-block declared symbols and keys of the reloaded token are compared with the model, and an implementation-only oracle compares print_block_source of the in-memory object, the reloaded Biscuit and the reloaded UnverifiedBiscuit, and the authorization outcome in memory vs reloaded; plus correctly signed blocks that redeclare a default symbol, an earlier symbol or a key.",
        "level_note": "The printer is not part of this model (C14): equality of printed sources and of authorization results between the in-memory and reloaded token is observed by the oracle; what is proved is the equality of the tables they are computed from. The authz stream additionally authorizes every generated token in memory, reloaded and sealed.",
        "rule": "symbols stream: corpus (the two fixed findings) first, seeded histories of 2-5 operations, ten redeclaration cases; non-trivial = redeclaration case or history of at least 3 observed steps; distinct = distinct case JSON",
        "trusted_base": ["harness/src/s_symbols.rs, s_versions.rs::craft_append (signing fixture)", "tools/props.py oracle_symbols", "lean/Codec.lean, lean/Driver.lean"],
        "assumptions": [],
    },
    "C13": {
        "module": "BiscuitModel.Props.C13",
        "more_modules": ["BiscuitModel.Props.C02Convert", "BiscuitModel.Props.C02Normal"],
        "streams": ["snapshot", "authz", "convert"],
        "level_text": "Lean 4 theorems: intern_resolve (an interned string resolves to itself), insert_stable (earlier indices keep their meaning), restore_symbols and restore_keys (re-inserting, one by one, the symbol table and the public-key table a snapshot stores rebuilds exactly the tables the snapshot was written against - for every table produced by interning, snapshot_table_wf - so every symbol and key index in the snapshot keeps its meaning), key_map_restored (the restored key-to-blocks map registers every block, so a scope naming the key of a LATER block trusts it). Tie: for every generated token + authorizer (third-party blocks with their own symbols and keys, scopes naming keys of later blocks), snapshot taken before run, after run and after a failed run, raw and base64: the restored authorizer's decision and query answers are compared with the compiled model's, and an implementation-only oracle compares original and restored authorizer (Display: facts per origin, rules, checks, policies; limits; counters; authorize; queries), the builder snapshot round trip (dump_code, authorize) and the saved-policies round trip. The authz stream adds, for every generated token and authorizer (third-party blocks, key scopes on authorizer rules, checks and policies), the outcome of the authorizer restored from a snapshot taken before anything ran: it must be the outcome of the authorizer itself, which is the outcome of the model.",
        "level_note": "Partial: that the restored authorizer BEHAVES like the original is established by the stream (the theorems give equality of the tables everything is expressed in, not invariance of evaluation under re-interning). Known finding: saved policies that name a public key cannot be restored (no key table in the AuthorizerPolicies message).",
        "rule": "snapshot stream: corpus (three fixed findings) first; authz-style cases x {before, after, after_failed} x {raw, base64}; non-trivial = restore succeeded on a token with at least two blocks; distinct = distinct case JSON",
        "trusted_base": ["harness/src/s_snapshot.rs", "tools/props.py oracle_snapshot", "lean/Codec.lean, lean/Driver.lean"],
        "assumptions": ["order-dependent cases (C11) are left to C11"],
    },
    "C14": {
        "module": "BiscuitModel.Props.C14Fuel",
        "more_modules": ["BiscuitModel.Props.C14Blocks", "BiscuitModel.Props.C14Rules", "BiscuitModel.Props.C14Expr", "BiscuitModel.Props.C14Terms", "BiscuitModel.Props.C14"],
        "streams": ["print", "termparse", "exprparse", "itemparse", "blockparse"],
        "level_text": "Lean 4 theorems about an executable model of both printer families (Model/Printer), of the expression parser (Model/ExprParser: expr .. expr9, expr_term, unary_negate, unary_parens, binary_method, unary_method, term - the left-associative many0 levels, the non-associative comparison level that swallows failures, ! over a level-6 operand, method chains, closures, the lazy operators' parameterless closures), of the rule / check / policy parsers (Model/RuleParser: predicate, rule_body, scopes, check_body, check, policy, rule_inner with validate_variables) of parse_block_source / parse_source (Model/BlockParser: the optional `trusting ...;` line, the statement loop with its alternatives in the order of the code, `;` or end of input after each, comments) and of the term / fact parser: parseBlockSource_round_trip / parseSource_round_trip (Props/C14Fuel: the two theorems below with the driver's own fuel, 50 * length + 50 and length + 2 loop turns, proved sufficient for every text the printer writes - needVs_le, needBody_le, needBodies_le; rule_round_trip / check_round_trip / policy_round_trip the same for single items), source_round_trip (Props/C14Blocks: the model of parse_source returns ANY dump_code text of the grammar - facts, rules, checks, policies, a blank line after each non-empty section; section_loop, element_policy, printAuthorizer_eq_sourceC), block_round_trip (Props/C14Blocks: the model of parse_block_source, run on the text print_block_source / the BlockBuilder display write for ANY block of the grammar - optional trusting line, facts, rules, checks, each closed by `;` and a line break - returns the block's scopes, facts, rules and checks in order; a statement starting with a predicate is never taken for a trusting line, whatever the predicate is called: no_keyword_pred, true since the repair /repo c0eecb2 which stating this theorem brought about; printBlock_eq_blockC), check_rt, policy_rt, rule_rt, body_rt (Props/C14Rules: a printed check, policy or rule - predicates with variables, expressions, `trusting` lists with authority / previous / public keys / parameters, any number of `or` alternatives - is read back by the model of check_inner / policy_inner / rule_inner as exactly that item, whatever follows that does not continue it; an expression element is never taken for a predicate: notPred_expr; printBody_eq_bodyC / printRule_eq / printCheck_eq: the texts of these theorems are what the printer model writes), expr_round_trip (for EVERY expression tree of the grammar - wfE: operands at the levels the grammar gives them, left-nested chains of any length, explicit Parens nodes where the levels require them, negation, method calls chained on level-9 receivers, .all / .any closures, nested to any depth - and every following text that does not continue the expression, the parser model run on the printed tree returns exactly that tree and leaves exactly that text; proved through the loop invariants Star / MStar of the operator and method loops, the false starts | of || and & of && included; expr_round_trip is about the function the exprparse stream runs: needE_le), showTree_eq_showC (the character-level printer of that theorem is the infix rendering that Expression::print produces, printExpr_opcodes); and of the term / fact parser (Model/TermParser: fact_inner, name, term_in_fact, term_in_set, parameter, string, date, integer, bytes, boolean, null, array, parse_map, map_key, set, with nom's alt / cut / separated_list / multispace0 written out and the two error classes Error / Failure kept apart): fact_round_trip (for EVERY fact the grammar derives - valid names, 64-bit integers, any strings, non-empty byte strings, homogeneous sets, arrays, maps, parameters, nested to any depth, the one ambiguous printed form {true} / {null} / {hex:..} excluded - and EVERY text that follows it, the parser model run on the printed fact returns exactly that fact and leaves exactly that text; by mutual structural induction over the term, with the fuel the driver uses proved sufficient: needT_le / needL_le), printPred_eq_predC (the character-level printer of that theorem is the printer model compared with Display), and the lexeme theorems it is built from: string_lit_round_trip (for EVERY string - quotes, backslashes, newlines, any scalar value - and every continuation of the text, the string parser reads the printed literal back as exactly that string and stops right after its closing quote: no string value can make printed text parse as different code), hex_round_trip and int_round_trip (the same for every non-empty byte string and every 64-bit integer, given that the next character is not a digit of that literal), postfix_print_infix / printExpr_opcodes (Expression::print, a stack machine over postfix ops with nested closure bodies, renders the op list of ANY expression tree as that tree's infix text, so the only parentheses printed are the explicit Parens nodes), and singleton_set_prints_as_parameter (the printer is not injective: the witness of the known finding). Tie: stream print - facts, rules, checks, policies, block sources and authorizer dumps generated over every term type, nested collections, every operator and method, closures, scopes with both key algorithms, strings over the full scalar range; the model's text is compared with Display of the builder item, with Biscuit::print_block_source (SymbolTable printers) and with the BlockBuilder Display; an implementation-only oracle requires that the real parser accepts the printed text and returns a structurally identical item (for blocks: identical serialized block after print_block_source -> BlockBuilder::code -> build; for authorizers: identical snapshot after dump_code -> AuthorizerBuilder::code). A third of the expression-bearing items are the parser's own output on text printed with parentheses left out at random, i.e. ASTs the grammar derives by construction.",
        "level_note": "Partial: for facts and all terms the inverse direction is a theorem (fact_round_trip) about the parser model that the termparse stream runs against the real fact_inner on printed, re-spaced, mutated and random text (result, rest of input and nom error class must agree); for expressions it is a theorem too (expr_round_trip, about the model that the exprparse stream runs against the real expr); for rule bodies, rules, checks and policies it is a theorem as well (check_rt, policy_rt, rule_rt, about the models that the itemparse stream runs against rule_body / check_body / rule_inner / check / policy on printed, mutated and random texts); for whole blocks and whole authorizers too (parseBlockSource_round_trip / parseSource_round_trip in Props/C14Fuel, about the functions the blockparse stream runs against parse_block_source / parse_source, with the fuel the driver uses proved sufficient for every printed text). What stays outside the theorems is the tie itself and the time crate. RFC 3339 parsing is the time crate: a parameter of the model, supplied per case by the harness calling time directly; the theorem assumes that it accepts only tokens shaped YYYY-... (checked on every table) and that it reads each printed date of the term back (dateOK, part of the well-formedness check). Sets and maps are compared as sets / maps (BTreeSet / BTreeMap collection is not modelled). Dates are printed by an executable RFC 3339 formatter in the model that is validated by the stream only. Items that contain unbound {parameters} are outside this property's stream (C20).",
        "rule": "print stream: corpus (fixed findings and the known one) first, then seeded items; non-trivial = the item contains a quote or backslash inside a string, an operator, a map, or a scope; termparse / exprparse / itemparse / blockparse streams: printed items (with a tail), re-spaced, 1-3 character mutations (statements, separators and comments inserted for blocks), token soup; non-trivial = the text contains a bracket or brace / an operator, dot or parenthesis / a comma, `or` or `trusting`; distinct = distinct case JSON",
        "trusted_base": ["harness/src/s_print.rs (generator, AST<->JSON, structural comparison)", "harness/src/s_termparse.rs, s_exprparse.rs, s_itemparse.rs, s_blockparse.rs (text generators, date table computed with the time crate)", "tools/props.py cmp_print (texts compared modulo the order of set and map elements), oracle_print, cmp_termparse (sets and maps compared as such)", "lean/Codec.lean, lean/Driver.lean"],
        "assumptions": [],
        "open_obligations": [],
    },
    "C15": {
        "module": "BiscuitModel.Props.C15",
        "streams": ["chain"],
        "level_text": "Lean 4 theorems: revocation_ids_are_signatures, op_ids_prefix and ids_prefix_stable (after any history of appends, third-party appends and a seal the identifier list has the previous list as a prefix), non_malleable_strict (with unique signatures - what ed25519 strict verification provides - two accepted tokens carrying the same signed content have the same identifiers, by induction along the chain), and ecdsa_last_id_witness (with a scheme that accepts two signatures per message the last identifier IS malleable: the full statement is false of the code for secp256r1). Tie: chain stream compares the identifiers of every accepted presentation (verified and unverified path, in memory vs reloaded) with the model, and includes the crafted (r, n-s) variant of every secp256r1 signature and trailing-byte variants of every signature.",
        "level_note": "Uniqueness across independently minted tokens rests on fresh next keys being in the signed payload (C01 injectivity) and on the scheme; not a separate theorem. Known finding: ECDSA malleability.",
        "rule": "chain stream (see C01); non-trivial = accepted presentation with at least two blocks or a signature-level mutation",
        "trusted_base": ["tools/extract.py (payload layouts, schema field numbers regenerated from crypto/mod.rs and schema.proto)", "harness/src/s_chain.rs (history generator, structured mutations, prost decoding of the wire message)", "harness/src/s_convert.rs (message generator, schema <-> JSON, error classes read from the messages)", "tools/extract.py gen_convert", "ed25519-dalek / p256 verifiers used independently of biscuit-auth to check real signatures over the model's payload bytes", "lean/Codec.lean, lean/Driver.lean"],
        "assumptions": ["unique signatures for ed25519 (strict verification)"],
    },
    "C16": {
        "module": "BiscuitModel.Props.C16",
        "more_modules": ["BiscuitModel.Props.C02Convert", "BiscuitModel.Props.C02Normal"],
        "streams": ["versions", "chain", "convert"],
        "level_text": "Lean 4 theorems re-checked on every run against detector tables and compatibility ladder regenerated from datalog/mod.rs (Gen/Detectors.lean): bin33_table, bin31_table, un33_table, closure_table, check_kind_table, term33_detected (the code's detectors recognise exactly the features the specification puts in 3.1 / 3.3, for every operator and for terms nested to any depth), declared_version_spec (for EVERY block the builders declare exactly the lowest version covering its contents), third_party_at_least_32, spec_version_values, compatible_sound and gate_sound (whatever passes the load gate declares a version in [3,6], at least the specification's version for its contents, and at least 3.2 if third-party), builder_blocks_pass_own_gate, chained_when_needed and never_back (signature scheme); accepted_passes_gate and snapshot_accepted_passes_gate (Props/C02Convert: every block the model of proto_block_to_token_block / proto_snapshot_block_to_token_block returns satisfies that load gate - the gate is not only stated on its own but derived from the reader as the code has it: version range, the pass over check kinds, scopes on rules, third-party blocks, check_compatibility with the error it reports; snapshot_third_party_below_32: the snapshot reader has no rule for third-party blocks below 3.2). Tie: the complete finite enumeration - one block per operator (in a check and in a rule), per unary, per term kind incl. nested null/array/map in facts, rule heads, rule bodies, check bodies and expression values, per check kind, per scope position - built through the builders as authority / appended / third-party block (declared version and signature version compared), and every one of them re-declared with versions 0..8, correctly re-signed as first- and third-party block, then loaded (gate compared); plus generated blocks.",
        "level_note": "Trusted: the translator (checked by the stream: the model's tables decide the same blocks as the running code), harness signing fixture (payload layouts used only to craft inputs). The key-algorithm sequences of the signature-version rule are tied by the chain stream (C02).",
        "rule": "convert stream (see C02; judged here: the cases whose features exceed the declared version or whose version is not the highest); versions stream: exhaustive over the feature list x {authority, appended, third-party} and x declared versions 0..8 x {first, third party}; plus seeded generated blocks; non-trivial = every case except the plain-fact baseline; distinct = distinct case JSON",
        "trusted_base": ["tools/extract.py gen_detectors", "harness/src/s_versions.rs (feature list, craft_append signing fixture)", "lean/Codec.lean, lean/Driver.lean"],
        "assumptions": [],
    },
    "C17": {
        "module": "BiscuitModel.Props.C17",
        "streams": ["keys"],
        "level_text": "Lean 4 theorems about an executable model of the key encodings at the format level (Model/Keys: PublicKey / PrivateKey from_bytes, from_bytes_hex, from_str, to_prefixed_string, print, to_proto / from_proto with prost's decoding of the PublicKey message, the SPKI frame of ed25519 keys): pub_string_round_trip and priv_string_round_trip (algorithm/hex strings of both algorithms parse back to the same algorithm and bytes), pub_string_trailing_rejected (whatever is appended to a printed public key, the string is refused), hex_round_trip (C14), varint_round_trip (every value below 2^64, whatever follows), proto_round_trip (the protobuf message decodes field by field to the same algorithm and bytes), proto_unknown_algorithm_rejected, wrong_length_rejected_ed25519 / _secp256r1 / _secp256r1_private, der_ed25519_round_trip, der_ed25519_wrong_frame_rejected. Tie: stream keys - key pairs of both algorithms from a seeded generator through every supported encoding and back (raw, hex, strings, protobuf, DER, PEM, KeyPair constructors; the private key always yields the same public key; the PEM body is checked to be the base64 of the DER with an independent decoder); every decoder on genuine encodings and on mutations of them (truncated, extended, a flipped bit or character, upper case, other prefix or separator, the other algorithm's material, the uncompressed SEC1 form, hand-made protobuf messages with swapped / duplicated / missing / unknown fields, out-of-range and non-minimal algorithm values, lengths beyond the input; damaged DER and PEM with swapped labels, cut footers, doubled bodies); verify_signature on genuine and damaged signatures, other keys of either algorithm, other messages. The model predicts the verdict of every text, byte and protobuf decoder and of the ed25519 SPKI frame; an implementation-only oracle covers PKCS#8 / SEC1 DER and PEM (a damaged encoding never yields the genuine key, a genuine one always does, nothing panics).",
        "level_note": "Partial: whether 32 / 33 bytes are a point of the curve or a valid scalar (ed25519 decompression, SEC1 decoding) is not modelled - the model's `accept` means accepted if the bytes are a point, and the comparator allows a refusal of mutated key bytes; that a signature verifies only under the matching key and message is the assumption on the signature scheme (C01's Scheme hypotheses), observed on the real code by the stream but not proved; DER beyond the ed25519 public-key frame and PEM (pkcs8 / spki / pem-rfc7468 crates) are covered by the oracle only. Remark: secp256r1 public keys are also accepted in the 65-byte uncompressed SEC1 form and re-encoded compressed.",
        "rule": "keys stream: corpus (the fixed finding) first, then seeded cases in the proportions round trip 1 : text decoders 2 : byte / protobuf decoders 1 : DER / PEM decoders 1 : verify 1; non-trivial = round trip, verify, or a decode of a mutated input; distinct = distinct case JSON",
        "trusted_base": ["harness/src/s_keys.rs (generator, mutations, hand-made protobuf)", "tools/props.py cmp_keys, oracle_keys", "lean/Codec.lean, lean/Driver.lean runKeys", "hook H2 (00f04bf): re-export of the signature type under cfg(biscuit_verif)"],
        "assumptions": ["signature scheme: verify(pk, m, s) holds only for s = sign(sk, m) with pk = public(sk) (observed, not proved)"],
    },
    "C18": {
        "module": "BiscuitModel.Props.C18",
        "streams": ["macros"],
        "level_text": "Lean 4 theorems about the two ways parameters are bound, on the model of C20: set_state_eq_setLenient_state and setScope_state_eq_lenient_state (the strict and the lenient setters differ in their answer, never in the state), runtime_bind_eq_macro_bind (offering EVERY supplied binding to an item with the strict setter and dropping the answer - code_with_params, or set in a loop - leaves the item in the same state as offering it only the parameters it declares with the lenient setter - the code the macros emit), substTerm_congr / substOps_congr / substRule_congr (the substituted item depends on the bindings only through the value each name has), lookup_bindRuntime, lookup_perm and bind_order_irrelevant (when every name is bound once, any two orders of binding give the same substituted item: the hash-map and hash-set iteration orders of the two paths cannot make them differ). Tie: stream macros - a crate is generated, built offline against /repo and run on every check: one function per case builds an item twice, with fact! / rule! / check! / policy! / block! / block_merge! / biscuit! / biscuit_merge! / authorizer! / authorizer_merge! and by parsing the same source at run time and binding the same parameters (Fact/Rule/Check/Policy::try_from + set / set_scope, BlockBuilder / BiscuitBuilder / AuthorizerBuilder::code_with_params); sources are items generated over the whole grammar with parameters injected at every kind of position (terms, nested collections, map keys, expression values, closure bodies, rule scopes, the block's own scopes), printed by the library; values are given to the macro as Rust expressions of every accepted type (Term, i64, &str, String, bool, Vec<u8>, SystemTime, BTreeSet<Term>, PublicKey), explicitly or through variables in scope; compared: Display, the converted Datalog form with its symbol table, the token bytes under a fixed root key and a fixed generator, the authorizer's dump_code and snapshot bytes - between the two paths (oracle) and, for Display, with the model's substituted item.",
        "level_note": "Partial: that the token stream emitted by quote! rebuilds exactly the parsed item, and the ToAnyParam conversions of Rust values, are code generation and trait dispatch, not modelled: they are decided by compiling and running the generated crate. The macros take every parameter at compile time, so subsets of bound parameters exist only on the runtime path (C20). A name is used either as a term or as a key parameter in this stream (set_macro_param dispatches on the value's type).",
        "rule": "macros stream: corpus first, then seeded cases (140 in the quick tier, 700 in the thorough one) over the ten macro forms; non-trivial = at least one parameter or a merge form; distinct = distinct case JSON",
        "trusted_base": ["harness/src/s_macros.rs (generator of the crate work/c18gen, which is rebuilt on every run)", "tools/props.py cmp_macros, oracle_macros", "lean/Codec.lean, lean/Driver.lean runMacros"],
        "assumptions": [],
    },
    "C19": {
        "module": "BiscuitModel.Props.C19",
        "streams": ["capi"],
        "level_text": "Lean 4 theorems about the handle and buffer protocol of biscuit-capi (Model/CApi, with the wire encoding of Model/Wire): update_keeps_handle and adds_never_abort (whatever sequence of additions - accepted or refused - is applied to a builder handle, the handle keeps a builder and no call aborts), refused_add_keeps_builder, null_handle_is_error, serialize_writes_announced and serialize_sealed_writes_announced (a buffer of the announced size receives exactly the announced number of bytes, sealed or not), wrong_announced_size_aborts, sealed_size_exceeds_unsealed (with a 32-byte next key and a 64-byte signature the sealed token is exactly 32 bytes longer than the unsealed one), public_key_32_bytes_fits, public_key_33_bytes_aborts (the witness of the known finding). Tie: stream capi - sequences of calls to the extern \"C\" functions of biscuit-capi, in process, in a child (an abort kills the child: the case records the operation it died on and a new child continues): key pairs of both algorithms from seeds (and bad seeds), public keys, key serialization round trips, token builders with accepted and refused additions in any order, context and root key id, build, sizes, serialization sealed and unsealed into buffers of the announced size framed by canary bytes, parsing back, block count, contexts, print and print_block_source for indices 0..count+1, block builders and append (also on sealed tokens), authorizer builders, build with and without a token, authorize with the failed-check accessors, authorizer_print, biscuit_authorizer - each also with null handles; next to every call the corresponding Rust operation runs on mirror objects and the comparator requires the same result, the same bytes, the same error message and an error kind whenever the call fails. The model predicts, per operation, value / error / abort for the handle and buffer protocol and the sealed-size difference.",
        "level_note": "Partial: that every C function returns what the Rust operation returns is a differential statement about two pieces of code, decided by the stream; aborts are runtime behaviour, observed through the death of the child. The authorizer runs with the default 1 ms time budget: an outcome that mentions Timeout on either side is not compared.",
        "rule": "capi stream: corpus first, then seeded call sequences (300 quick, 4000 thorough) of 25-40 operations; every case is non-trivial; distinct = distinct case JSON",
        "trusted_base": ["harness/src/s_capi.rs (operation interpreter, Rust mirror, canary buffers; the child-process runner of common.rs)", "tools/props.py cmp_capi, oracle_capi", "lean/Codec.lean, lean/Driver.lean runCApi (the parser's verdict on every added text is an input of the model)"],
        "assumptions": [],
    },
    "C20": {
        "module": "BiscuitModel.Props.C20Parse",
        "more_modules": ["BiscuitModel.Props.C20"],
        "streams": ["params"],
        "level_text": "Lean 4 theorems: bound_fact_reads_back (C20 composed with C14: bind the parameters of any fact to any values - any string at all - and print it; if the result is a fact of the grammar, the parser model reads the text back as exactly that fact, the values at the positions of the parameters and nothing else, and leaves whatever followed untouched: no value can close the fact early, add a term or start a new statement), any_string_is_a_value; and, about the builders' substitution itself, theorems about an executable model of parameter binding on source-level items (Model/Params: extract_parameters / collect_parameters, set / set_lenient / set_scope / set_scope_lenient, validate_parameters, apply_parameters for terms nested to any depth, map keys, expression values, closure bodies and scopes). The specification is the inductive relation Inst (the result is the item with every bound parameter replaced at its position by the bound term, nothing else changed): substTerm_inst and inst_functional (the substitution the builders perform is that relation, and the relation determines its result, whatever the value contains), bound_param_is_value, bound_string_is_one_literal (a bound string, printed, is read back as that one string - C14's theorem), subst_closed / substOps_closed / rule_apply_closed (when every declared parameter has a parameter-free value - a key position an integer or a string - and every scope parameter a key, NO parameter is left anywhere in the rule, so conversion meets none), missing_complete and missing_nil_iff (validation passes exactly when every declared name has a value and reports exactly the others), set_unknown_reported, set_lenient_unknown_ignored, set_scope_unknown_reported, set_known (a declared name gets exactly that value, no other name and not the item are touched). Tie: stream params - facts, rules, checks and policies with parameters injected at random at every kind of position, built through the constructors or through their printed source and the parser, bound by sequences of strict and lenient setters (all names, strict subsets, undeclared names, rebinding) to values over every term type including strings made of Datalog syntax; compared with the model: every setter's result, the validation verdict with the names it reports, and the item obtained from convert/convert_from against the model's substituted item; an implementation-only oracle requires that fact()/rule()/check()/policy() agree with validation, that the strict setters report undeclared names, and that no accepted item panics in conversion.",
        "level_note": "The macros' parameter path (set_macro_param) is exercised by the generated crate of C18, not by this stream. Substitution is modelled on the AST because that is what the builders do; that the printed form of the substituted item parses back to it is C14 (partial for whole expressions). Map-key collisions after binding (two entries of one map getting the same key) are skipped by the comparator: BTreeMap keeps one of them.",
        "rule": "params stream: corpus (the two fixed findings and the known one) first, then seeded items; non-trivial = the item has at least one parameter and one setter call; distinct = distinct case JSON",
        "trusted_base": ["harness/src/s_params.rs (generator, parameter injection), harness/src/s_print.rs (AST<->JSON)", "tools/props.py cmp_params (sets and maps compared as unordered), oracle_params", "lean/Codec.lean, lean/Driver.lean runParams (check/policy setters distribute over queries)"],
        "assumptions": [],
    },
}


HOOK_COMMITS = ["c507bdb", "00f04bf"]

# ---------------------------------------------------------------- comparators
def cmp_default(case, impl, model):
    if "driver_error" in model:
        return "driver error: %s" % model["driver_error"]
    if model.get("err") == "MODEL-UNSUPPORTED":
        return "skip"
    if impl != model:
        return "outcomes differ"
    return None


def _canon_facts(fs):
    return sorted(json.dumps(f, sort_keys=True) for f in fs)


def _q_match(im, mo):
    """one query outcome; the model may give a set of order-dependent outcomes"""
    alts = mo["any"] if "any" in mo else [mo]
    for a in alts:
        if "facts" in a or "facts" in im:
            if "facts" in a and "facts" in im and _canon_facts(a["facts"]) == _canon_facts(im["facts"]):
                return True
        elif "err" in a or "err" in im:
            if a.get("err") == im.get("err"):
                return True
        elif a.get("b") == im.get("b"):
            return True
    return False


def cmp_engine(case, impl, model):
    if "driver_error" in model:
        return "driver error: %s" % model["driver_error"]
    if "panic" in impl:
        return "implementation panicked: %s" % impl["panic"]
    if model.get("r") == "MODEL-OUT-OF-FUEL":
        return "skip"
    if impl.get("r") != model.get("r"):
        return "run result differs: impl %s model %s" % (impl.get("r"), model.get("r"))
    if impl.get("iterations") != model.get("iterations"):
        return "iteration count differs: impl %s model %s" % (impl.get("iterations"), model.get("iterations"))
    a, b = _canon_facts(impl["facts"]), _canon_facts(model["facts"])
    if a != b:
        extra = [x for x in a if x not in b]
        missing = [x for x in b if x not in a]
        return "fact sets differ: impl-only %s model-only %s" % (extra[:3], missing[:3])
    for i, (qi, qm) in enumerate(zip(impl.get("queries", []), model.get("queries", []))):
        if not _q_match(qi, qm):
            return "query %d differs" % i
    return None


def _canon(v):
    """sets and maps inside query answers are unordered"""
    if isinstance(v, dict):
        out = {}
        for k, x in v.items():
            if k in ("set", "map") and isinstance(x, list):
                out[k] = sorted((_canon(e) for e in x), key=lambda e: json.dumps(e, sort_keys=True))
            else:
                out[k] = _canon(x)
        return out
    if isinstance(v, list):
        return [_canon(e) for e in v]
    return v


def _canon_query(q):
    if "facts" in q:
        return {"facts": sorted(set(json.dumps(_canon(f), sort_keys=True) for f in q["facts"]))}
    return {"r": q.get("r")}


AUTHZ_KEYS = ("r", "p", "pk", "failed", "iterations", "fact_count")


def cmp_authz(case, impl, model):
    if "driver_error" in model:
        return "driver error: %s" % model["driver_error"]
    if "panic" in impl:
        return "implementation panicked: %s" % impl["panic"]
    if model.get("r") == "MODEL-OUT-OF-FUEL":
        return "skip"
    if model.get("amb"):
        return "skip"
    for k in ("reload_differs", "reload_error", "sealed_differs", "seal_error", "snapshot_differs", "again_differs", "base_table_differs", "base_table_sealed_differs"):
        if k in impl:
            return "%s: %s" % (k, json.dumps(impl[k])[:200])
    for k in AUTHZ_KEYS:
        if impl.get(k) != model.get(k):
            if k in ("iterations", "fact_count") and impl.get("r") in ("exec", "token-error", "invalid-rule"):
                continue
            return "%s differs: impl %s model %s" % (k, json.dumps(impl.get(k)), json.dumps(model.get(k)))
    qi, qm = impl.get("queries", []), model.get("queries", [])
    if len(qi) != len(qm) and impl.get("r") != "invalid-rule":
        return "query count differs"
    for i, (a, b) in enumerate(zip(qi, qm)):
        if _canon_query(a) != _canon_query(b):
            return "query %d differs: impl %s model %s" % (i, json.dumps(_canon_query(a))[:200], json.dumps(_canon_query(b))[:200])
    return None


def cmp_atten(case, impl, model):
    if "driver_error" in model:
        return "driver error: %s" % model["driver_error"]
    skipped = False
    for side in ("base", "ext"):
        v = cmp_authz(case, impl[side], model[side])
        if v == "skip":
            skipped = True
        elif v is not None:
            return "%s token: %s" % (side, v)
    return "skip" if skipped else None


def cmp_determ(case, impl, model):
    if "driver_error" in model:
        return "driver error: %s" % model["driver_error"]
    if "panic" in impl:
        return "implementation panicked: %s" % impl["panic"]
    outs = impl["outcomes"]
    if len(outs) > 1:
        if model.get("amb"):
            return "order-dependent outcome (model: a matching binding and a failing binding coexist): %d distinct outcomes" % len(outs)
        return "%d distinct outcomes over %d identical builds: %s" % (len(outs), impl["n"], json.dumps([{k: o.get(k) for k in ("r", "p", "kind", "failed")} for o in outs])[:300])
    if model.get("amb"):
        return "skip"
    return cmp_authz(case, outs[0], model)


def cmp_limits(case, impl, model):
    if "driver_error" in model:
        return "driver error: %s" % model["driver_error"]
    if "panic" in impl:
        return "implementation panicked: %s" % impl["panic"]
    if model.get("skip") or model.get("amb"):
        return "skip"
    ci, cm = impl["calls"], model["calls"]
    if len(ci) != len(cm):
        return "number of call outcomes differs: impl %d model %d" % (len(ci), len(cm))
    for n, (a, b) in enumerate(zip(ci, cm)):
        for k in ("r", "p", "pk", "failed", "iterations", "fact_count"):
            if a.get(k) != b.get(k):
                if k in ("iterations", "fact_count") and a.get("r") in ("exec", "token-error", "invalid-rule"):
                    continue
                return "call %d: %s differs: impl %s model %s" % (n, k, json.dumps(a.get(k)), json.dumps(b.get(k)))
        if a.get("r") == "answer" and _canon_query(a) != _canon_query(b):
            return "call %d: query answer differs" % n
    return None


def cmp_chain(case, impl, model):
    if "driver_error" in model:
        return "driver error: %s" % model["driver_error"]
    if "panic" in impl:
        return "implementation panicked: %s" % impl["panic"]
    if case.get("op") in ("tpv", "tpu"):
        if impl.get("accept") != model.get("accept"):
            if impl.get("accept"):
                return "third-party response accepted where it must be refused (%s: %s)" % (case["op"], case["variant"])
            return "third-party response refused where it must be accepted (%s: %s)" % (case["op"], case["variant"])
        if case["op"] == "tpv" and impl.get("accept") and not impl.get("result_verifies"):
            return "token with the accepted third-party block does not verify"
        return None
    if case.get("op") == "sealops":
        bad = [k for k in model["ops"] if impl["ops"].get(k) != model["ops"][k]]
        if bad:
            return "operation on a sealed token not refused: %s" % ", ".join(sorted(bad))
        return None
    paths = (impl.get("accept"), impl.get("accept_unverified_then_verify"), impl.get("accept_base64"),
             impl.get("accept_deprecated_parse_then_verify", impl.get("accept")))
    if len(set(paths)) != 1:
        return "entry points disagree on acceptance: from=%s unverified+verify=%s base64=%s deprecated-parse+verify=%s" % paths
    if impl["accept"] != model["accept"]:
        if impl["accept"]:
            return "token accepted although not every signature is one an honest party made over that payload (mutation: %s)" % case.get("mutation")
        return "token rejected although its chain is valid (mutation: %s; error %s)" % (case.get("mutation"), impl.get("error"))
    if impl["accept"]:
        unread = [k for k, t in enumerate(impl.get("sources", [])) if isinstance(t, str) and t.startswith("ERR:")]
        if unread:
            return "accepted token whose block %d cannot be read: %s (mutation: %s)" % (unread[0], impl["sources"][unread[0]][:160], case.get("mutation"))
        for k in ("ids", "ext_keys", "block_count", "root_key_id"):
            if impl.get(k) != model.get(k):
                return "%s differs on an accepted token: impl %s model %s" % (k, json.dumps(impl.get(k))[:200], json.dumps(model.get(k))[:200])
        if "ids_unverified_path" in impl and impl["ids_unverified_path"] != impl["ids"]:
            return "revocation identifiers differ between the verified and the unverified path"
    if case.get("mutation") == "none":
        if impl.get("ids_in_memory") != impl.get("ids"):
            return "revocation identifiers changed by a serialization round trip"
        for k in ("root_key_id", "block_count", "ext_keys"):
            if k + "_in_memory" in impl and impl[k + "_in_memory"] != impl.get(k):
                return "%s changed by a serialization round trip: %s in memory, %s after reload" % (k, json.dumps(impl[k + "_in_memory"]), json.dumps(impl.get(k)))
        if not impl.get("reserialized_identical"):
            return "re-serializing the deserialized token does not give identical bytes"
        if impl.get("wire_bytes") != model.get("wire_bytes"):
            return "bytes of to_vec() differ from the model's wire encoding"
        if model.get("decoded_same") is False:
            return "the model's wire decoder does not read the presented bytes as prost does"
        if "sig_versions" in model:
            actual = [case["subject"]["authority"]["version"] or 0] + [b["version"] or 0 for b in case["subject"]["blocks"]]
            if actual != model["sig_versions"]:
                return "signature versions of the blocks %s differ from the rule (third-party, 3.3 content or non-ed25519 key => 1, never back): %s" % (actual, model["sig_versions"])
        post = impl.get("post", {})
        if post.get("failed"):
            return "signature does not verify over the payload layout of the model: %s" % post["failed"]
        if post.get("checked", 0) == 0:
            return "no signature was checked over the model's payloads"
    return None


POST = {"chain": "chainpost"}

# which cases of a shared stream are in the scope of a property (others are run but not judged)
FILTERS = {
    ("C13", "convert"): lambda case: case.get("kind") == "snapshot",
    ("C16", "convert"): lambda case: case.get("gen") == "loose" or case["block"].get("version") != 6,
    ("C16", "chain"): lambda case: case.get("op") == "chain" and case.get("mutation") == "none",
    ("C02", "chain"): lambda case: case.get("op") == "chain" and (case.get("mutation") == "none" or case.get("mutation", "").startswith("honest token")),
    ("C08", "chain"): lambda case: case.get("op") == "sealops" or (case.get("op") == "chain" and "seal" in (case["subject"].get("proof") or {}) and "ecdsa" not in case.get("mutation", "")),
    ("C01", "chain"): lambda case: case.get("op") == "chain",
    ("C07", "chain"): lambda case: case.get("op") in ("tpv", "tpu") or (case.get("op") == "chain" and "ecdsa" not in case.get("mutation", "") and ("external" in case.get("mutation", "") or any(b.get("ext") for b in case["subject"]["blocks"]))),
    ("C15", "chain"): lambda case: case.get("op") == "chain",
}

def cmp_versions(case, impl, model):
    if "driver_error" in model:
        return "driver error: %s" % model["driver_error"]
    if "panic" in impl:
        return "implementation panicked: %s" % impl["panic"]
    if "builder_error" in impl or "build_error" in impl:
        return "skip"
    if case["kind"] == "declared":
        if impl.get("declared") != model.get("declared"):
            return "declared version of a block with [%s] (%s): builders %s, model %s (specification %s)" % (
                case["feature"], case["placement"], impl.get("declared"), model.get("declared"), model.get("spec"))
        if model.get("declared") != model.get("spec"):
            return "model: declared version differs from the specification's"
        if impl.get("signature_version") != model.get("signature_version"):
            return "signature version of a block with [%s] (%s): token %s, model %s" % (case["feature"], case["placement"], impl.get("signature_version"), model.get("signature_version"))
        return None
    if impl.get("load") != model.get("load"):
        return "load gate for [%s] declared %s third_party=%s: implementation %s, model %s" % (
            case["feature"], case["declared"], case["third_party"], impl.get("load"), model.get("load"))
    if model.get("load") and not model.get("spec_ok"):
        return "model: gate accepts a block the specification refuses"
    return None


def cmp_symbols(case, impl, model):
    if "driver_error" in model:
        return "driver error: %s" % model["driver_error"]
    if "panic" in impl:
        return "implementation panicked: %s" % impl["panic"]
    if case["kind"] == "redeclare":
        if impl["load"] != impl["load_unverified"]:
            return "verified and unverified deserialization disagree on a redeclaring block"
        if impl["load"] != model["load"]:
            return "token whose block declares %s: implementation %s, model %s" % (
                json.dumps(case["declared"]), "accepts" if impl["load"] else "refuses", "accepts" if model["load"] else "refuses")
        return None
    for n, (a, b) in enumerate(zip(impl["steps"], model["steps"])):
        if "op_error" in a:
            return "step %d (%s) failed: %s" % (n, case["ops"][n]["op"], a["op_error"])
        if not b["reload_ok"] or not b["reload_same"]:
            return "model: reload does not reproduce the in-memory tables at step %d" % n
        if "reload_error" in a:
            return "step %d: the token does not deserialize: %s" % (n, a["reload_error"])
        for k in ("block_symbols", "block_keys", "third_party"):
            if a.get(k) != b.get(k):
                return "step %d (%s): %s differ: implementation %s model %s" % (n, case["ops"][n]["op"], k, json.dumps(a.get(k))[:200], json.dumps(b.get(k))[:200])
    return None


def cmp_snapshot(case, impl, model):
    """the restored authorizer must behave as the model says the original does"""
    if "driver_error" in model:
        return "driver error: %s" % model["driver_error"]
    if "panic" in impl:
        return "implementation panicked: %s" % impl["panic"]
    if model.get("amb") or model.get("r") in ("invalid-rule", "MODEL-OUT-OF-FUEL"):
        return "skip"
    if "restored" not in impl:
        return "skip"
    o = impl["restored"]
    for k in ("r", "p", "pk", "failed"):
        if o.get(k) != model.get(k):
            return "restored authorizer: %s differs from the model: %s vs %s" % (k, json.dumps(o.get(k)), json.dumps(model.get(k)))
    qi, qm = o.get("queries", []), model.get("queries", [])
    for i, (a, b) in enumerate(zip(qi, qm)):
        if _canon_query(a) != _canon_query(b):
            return "restored authorizer: query %d differs from the model" % i
    return None



# ---------------------------------------------------------------- print stream (C14)
def norm_sets(text):
    """canonical form of printed Datalog for comparison: the elements of every `{...}` (sets, maps) are sorted.
    The order in which a set or map is printed follows the order in which its strings were interned, which
    is not part of the program; string literals are skipped over with their escapes."""
    n = len(text)

    def until(i, stops):
        out = []
        while i < n:
            c = text[i]
            if c in stops:
                break
            if c == '"':
                j = i + 1
                while j < n and text[j] != '"':
                    j += 2 if text[j] == "\\" else 1
                out.append(text[i:j + 1])
                i = j + 1
            elif c == "{":
                elems = []
                i += 1
                while True:
                    e, i = until(i, ",}")
                    elems.append(e.strip())
                    if i >= n or text[i] == "}":
                        break
                    i += 1
                i += 1
                # a BTreeSet keeps one copy of equal elements (two parameters bound to the same value)
                out.append("{" + ", ".join(sorted(set(elems))) + "}")
            elif c in "([":
                e, i = until(i + 1, ")" if c == "(" else "]")
                out.append(c + e + (text[i] if i < n else ""))
                i += 1
            else:
                out.append(c)
                i += 1
        return "".join(out), i

    res = []
    i = 0
    while i < n:
        e, i = until(i, "")
        res.append(e)
    return "".join(res)


def cmp_print(case, impl, model):
    """the model's printer against both printer families of the implementation"""
    if "driver_error" in model:
        return "driver error: %s" % model["driver_error"]
    if "panic" in impl:
        return "skip"          # judged by the oracle; there is no text to compare
    it, mt = impl.get("text"), model.get("text")
    if it != mt and norm_sets(it) != norm_sets(mt):
        return "printed text differs from the printer model: %r vs %r" % (it[:300], mt[:300])
    bt = impl.get("builder_text")
    if bt is not None and bt != mt and norm_sets(bt) != norm_sets(mt):
        return "BlockBuilder Display differs from the printer model: %r vs %r" % (bt[:300], mt[:300])
    return None


def oracle_print(case, impl):
    """C14 on the implementation alone: the printed item parses, and parses back to the same item"""
    if "bound_text" in impl and "text" in impl and impl["bound_text"] != impl["text"]:
        return "the item written with parameters bound to its own terms prints %r, the item itself prints %r" % (impl["bound_text"][:200], impl["text"][:200])
    if "panic" in impl:
        return "panic while printing or parsing back: %s" % impl["panic"]
    if "parse_error" in impl:
        return "printed %s does not parse: %s (text %r)" % (case["kind"], impl["parse_error"][:200], impl.get("text", "")[:300])
    if impl.get("same") is not True:
        return "printed %s parses back to a different program: %r reprinted as %r" % (case["kind"], impl.get("text", "")[:300], impl.get("reprinted", "")[:300])
    if impl.get("reloaded_same") is False:
        return "print_block_source differs after a serialization round trip"
    for name, t in (impl.get("paths") or {}).items():
        if t != impl.get("text") and norm_sets(t) != norm_sets(impl.get("text", "")):
            return "print_block_source of the same block differs (%s): %r instead of %r" % (name, t[:300], impl.get("text", "")[:300])
    return None


def match_singleton_set_parameter(k, d):
    """a one-element set of a boolean, null or byte string prints as `{true}` / `{null}` / `{hex:..}`, which the
    parser reads as a parameter; the model flags the items that contain such a set"""
    return d["stream"] == "print" and d["model"].get("amb_param") is True and (
        "parses back to a different program" in d["why"] or "does not parse" in d["why"] or "Remaining parameter" in d["why"])


# ---------------------------------------------------------------- params stream (C20)
def canon_ast(j):
    """sets and maps are unordered containers on the Rust side (BTreeSet / BTreeMap): compare them as such.
    Returns None when a map has two entries with one key (the entries would collapse on the Rust side)."""
    if isinstance(j, dict):
        if set(j.keys()) == {"set"}:
            xs = [canon_ast(x) for x in j["set"]]
            if any(x is None for x in xs):
                return None
            uniq = {json.dumps(x, sort_keys=True): x for x in xs}
            return {"set": [uniq[k] for k in sorted(uniq)]}
        if set(j.keys()) == {"map"}:
            kvs = [[canon_ast(k), canon_ast(v)] for k, v in j["map"]]
            if any(v is None for _, v in kvs):
                return None
            keys = [json.dumps(k, sort_keys=True) for k, _ in kvs]
            if len(set(keys)) != len(keys):
                return None
            return {"map": [kv for _, kv in sorted(zip(keys, kvs), key=lambda p: p[0])]}
        out = {}
        for k, v in j.items():
            c = canon_ast(v)
            if c is None and v is not None:
                return None
            out[k] = c
        return out
    if isinstance(j, list):
        out = [canon_ast(x) for x in j]
        return None if any(x is None and y is not None for x, y in zip(out, j)) else out
    return j


def cmp_params(case, impl, model):
    if "driver_error" in model:
        return "driver error: %s" % model["driver_error"]
    if "panic" in impl:
        return "implementation panicked: %s" % impl["panic"]
    if "text_rejected" in impl:
        return "skip"
    if impl["binds"] != model["binds"]:
        return "setter results differ: %s vs %s" % (json.dumps(impl["binds"]), json.dumps(model["binds"]))
    if impl["validate"] != model["validate"]:
        return "validation verdict differs: %s vs %s" % (json.dumps(impl["validate"]), json.dumps(model["validate"]))
    if impl["add"] != "ok":
        return None
    if model["residual"]:
        # the model keeps a parameter too (a key position bound to a non-key value): judged by the oracle
        return None if "convert_panic" in impl else "the model predicts leftover parameters %s, the implementation converted" % model["residual"]
    if "convert_panic" in impl:
        return "conversion of a fully bound item panicked: %s" % impl["convert_panic"]
    a, b = canon_ast(impl["converted"]), canon_ast(model["converted"])
    if b is None:
        return "skip"
    if a != b:
        return "converted item differs from the substituted item of the model: %s vs %s" % (json.dumps(a)[:400], json.dumps(b)[:400])
    return None


def oracle_params(case, impl):
    """C20 on the implementation alone"""
    if "panic" in impl:
        return "panic: %s" % impl["panic"]
    if "text_rejected" in impl:
        return None
    if impl["add"] != impl["validate"]:
        return "fact()/rule()/check()/policy() and validate disagree: %s vs %s" % (json.dumps(impl["add"]), json.dumps(impl["validate"]))
    for b, r in zip(case["binds"], impl["binds"]):
        if b["name"] in ("unknown", "nokey"):
            strict = b["m"] in ("set", "set_scope")
            if case["kind"] == "fact" and b["m"].startswith("set_scope"):
                continue
            if strict and r == "ok":
                return "strict setter accepted the undeclared name %s" % b["name"]
            if not strict and r != "ok":
                return "lenient setter refused the undeclared name %s" % b["name"]
    if "convert_panic" in impl:
        return "an item accepted by the builder panics when converted: %s" % impl["convert_panic"]
    return None


def match_map_key_parameter_type(k, d):
    """a parameter in map-key position bound to a value that is neither an integer nor a string stays in place
    (term.rs `//FIXME: we should return an error`), passes validation and makes the conversion panic"""
    if d["stream"] != "params" or "Remaining parameter" not in d["why"]:
        return False
    res = d["model"].get("residual") or []
    bound = {}
    for b in d["case"]["binds"]:
        if "value" in b:
            bound[b["name"]] = b["value"]
    return bool(res) and all(n in bound and not ("int" in bound[n] or "str" in bound[n]) for n in res)


# ---------------------------------------------------------------- keys stream (C17)
def cmp_keys(case, impl, model):
    if "driver_error" in model:
        return "driver error: %s" % model["driver_error"]
    if "panic" in impl:
        return "implementation panicked: %s" % impl["panic"]
    kind = case["kind"]
    if kind == "roundtrip":
        if impl["pk"] != case["pk"]:
            return "the private key yields another public key: %s vs %s" % (impl["pk"], case["pk"])
        for k in ("pub_hex", "pub_string", "priv_hex", "priv_string", "pub_proto", "pub_der"):
            if model.get(k) is not None and impl[k] != model[k]:
                return "%s differs: %s vs %s" % (k, impl[k], model[k])
        if impl["pub_print"] != impl["pub_string"]:
            return "print() and Display differ"
        for k, v in model["back"].items():
            if v is not None and (v is not True or impl["back"].get(k) is not True):
                return "round trip through %s: implementation %s, model %s" % (k, impl["back"].get(k), v)
        return None
    if kind == "decode":
        if model["r"] == "unmodelled":
            return "skip"
        if model["r"] == "err":
            return None if impl["r"] == "err" else "accepted by the implementation (%s %s), refused by the model" % (impl.get("alg"), impl.get("bytes"))
        # format accepted: the bytes may still not be a point / a scalar, except for genuine encodings
        if impl["r"] == "err":
            return "a genuine encoding is refused: %s" % impl.get("e") if case.get("mutation") == "none" and case["alg"] == case["from_alg"] else None
        if impl["alg"] != model["alg"] or (model["bytes"] is not None and impl["bytes"] != model["bytes"]):
            return "decoded key differs: %s/%s vs %s/%s" % (impl["alg"], impl["bytes"], model["alg"], model["bytes"])
        return None
    if kind == "source":
        if impl["r"] != model["r"]:
            if model["r"] == "err":
                return "Datalog source with a malformed public key is accepted (%s): %r" % (case["which"], case["text"][:200])
            # a well-formed encoding may still not be a point; the generator only writes genuine keys there
            return "Datalog source with genuine public keys is refused (%s): %r" % (case["which"], case["text"][:200])
        return None
    if impl["verified"] != model["expect"]:
        return "verify_signature gives %s where key, message and signature are %s" % (impl["verified"], "genuine" if model["expect"] else "not all genuine")
    return None


def oracle_keys(case, impl):
    """C17 on the implementation alone: every round trip gives the key back, and the decoders the model does
    not cover (PKCS#8 / SPKI DER beyond the ed25519 frame, PEM) never return the genuine key for a damaged
    encoding nor panic"""
    if "panic" in impl:
        return "panic: %s" % impl["panic"]
    if case["kind"] == "roundtrip":
        bad = [k for k, v in impl["back"].items() if v is not True]
        if bad:
            return "round trip fails through %s" % ", ".join(sorted(bad))
        if not impl["pem_is_der"]:
            return "the PEM body is not the base64 of the DER encoding"
        return None
    if case["kind"] == "decode" and "genuine_key" in case:
        m = case.get("mutation")
        if m == "none":
            if impl["r"] != "key" and case["alg"] == case["from_alg"]:
                return "genuine %s refused: %s" % (case["what"], impl.get("e"))
            if impl["r"] == "key" and impl["bytes"] != case["genuine_key"]:
                return "genuine %s decodes to another key" % case["what"]
            if impl["r"] == "key" and case["what"].endswith("_alg") and case["alg"] != case["from_alg"]:
                return "%s accepted a key of the other algorithm" % case["what"]
        elif impl["r"] == "key" and impl["bytes"] == case["genuine_key"]:
            return "damaged %s (%s) accepted as the genuine key" % (case["what"], m)
    return None


# ---------------------------------------------------------------- untrusted stream (C09)
def cmp_untrusted(case, impl, model):
    if "driver_error" in model:
        return "driver error: %s" % model["driver_error"]
    if "panic" in impl or "abort" in impl:
        return "skip"       # judged by the oracle
    kind = case["kind"]
    if kind == "token":
        for name in ("sweep", "usweep"):
            sw = impl.get(name)
            if not sw:
                continue
            if sw["count"] != model["count"]:
                return "%s: block_count() = %s for a token of %s blocks" % (name, sw["count"], model["count"])
            for e, want in zip(sw["idx"], model["idx"]):
                for acc, r in e.items():
                    if acc == "i":
                        continue
                    # an accessor may fail on an in-range index (the block itself may be refused), never succeed out of range
                    if r == "ok" and not want:
                        return "%s: %s(%d) succeeds beyond the last block" % (name, acc, e["i"])
        return None
    if kind == "symprobe":
        for k in ("get", "print_default", "tmp_get", "extra_ids"):
            if impl[k] != model[k]:
                return "symbol lookup %s differs: %s vs %s" % (k, json.dumps(impl[k]), json.dumps(model[k]))
        if impl["print"] != impl["get"]:
            return "print_symbol and get_symbol disagree"
        return None
    return "skip"


def oracle_untrusted(case, impl):
    """C09 on the implementation alone: a value or an error, never a panic, an abort or a hang"""
    if "panic" in impl:
        return "panic: %s" % impl["panic"]
    if "abort" in impl:
        return "the process running the case died: %s" % impl["abort"]
    return None


def match_source_nesting(k, d):
    """Datalog source nested thousands of levels deep exhausts the stack of the recursive-descent parser"""
    if d["stream"] != "untrusted" or d["case"].get("kind") != "source" or "died" not in d["why"]:
        return False
    t = d["case"].get("text", "")
    return any(ch * 1000 in t for ch in "([!") or t.count("$x.any(") >= 50


# ---------------------------------------------------------------- macros stream (C18)
def cmp_macros(case, impl, model):
    if "driver_error" in model:
        return "driver error: %s" % model["driver_error"]
    if "build_failed" in impl:
        return "the generated crate does not build: %s" % impl["build_failed"][:300]
    if "missing_output" in impl:
        return impl["missing_output"]
    m = impl["macro"]
    if "panic" in m or "err" in m:
        return "skip"       # judged by the oracle (both paths must then fail alike)
    if model.get("dup_keys"):
        return "skip"       # two entries of one map got the same key: BTreeMap keeps one of them
    t = m.get("text")
    if t != model["text"] and norm_sets(t) != norm_sets(model["text"]):
        return "the macro-built %s prints differently from the model's substituted item: %r vs %r" % (case["kind"], t[:300], model["text"][:300])
    return None


def oracle_macros(case, impl):
    """C18 on the implementation alone: the macro-built and the runtime-built builders are identical
    (Display, converted form / token bytes under fixed keys / authorizer snapshot); when one path fails,
    the other fails the same way"""
    if "build_failed" in impl or "missing_output" in impl:
        return None     # reported by the comparator
    m, r = impl["macro"], impl["runtime"]
    if m == r:
        return None
    for k in ("panic", "err"):
        if (k in m) != (k in r):
            return "one path fails and the other does not: macro %s, runtime %s" % (json.dumps(m)[:200], json.dumps(r)[:200])
    for k in ("text", "converted", "bytes"):
        if m.get(k) != r.get(k):
            return "%s differs between the macro-built and the runtime-built %s: %s vs %s" % (k, case["kind"], json.dumps(m.get(k))[:240], json.dumps(r.get(k))[:240])
    return "macro-built and runtime-built results differ: %s vs %s" % (json.dumps(m)[:200], json.dumps(r)[:200])


# ---------------------------------------------------------------- capi stream (C19)
def _capi_op_diff(op, r):
    """difference between the C result and the Rust mirror for one operation, or None"""
    name = op["op"]
    c, m = r.get("c"), r.get("r")
    err, rerr = r.get("err"), r.get("rerr")
    # the authorizers of both sides run with the default 1 ms time budget: on a loaded machine either may stop
    # with RunLimit(Timeout) ("Reached Datalog execution limits", error kind 27) independently of the other
    timeouts = "execution limits" in json.dumps(r) or "Timeout" in json.dumps(r) or (isinstance(err, dict) and err.get("kind") == 27)
    if name in ("kp_new", "kp_public", "pk_deserialize", "bb_new", "blk_new", "azb_new", "bb_build", "tok_from", "tok_append", "azb_build", "tok_authorizer") or name.endswith("_add"):
        if m is None:
            # null handle or invalid argument on the C side only: must be an error, reported as InvalidArgument
            if c is True:
                return "succeeds with a null handle or an invalid argument"
            if err is None or err.get("kind") != 1:
                return "invalid argument not reported through the error channel: %s" % json.dumps(err)
            return None
        if c != m:
            return "C returns %s where the Rust operation returns %s (%s)" % (c, m, rerr)
        if c is False:
            if err is None or err.get("kind") in (None, 0):
                return "failure without an error in the error channel (Rust: %s)" % rerr
            if rerr is not None and err.get("message") != rerr:
                return "error message differs: %r vs %r" % (err.get("message"), rerr)
        return None
    if name == "kp_roundtrip":
        if m is None or m.get("bytes") is None:
            return None
        if c["n"] != 32 or c["bytes"] != m["bytes"] or not c["intact"] or not c["back"]:
            return "key_pair_serialize / deserialize: %s vs %s" % (json.dumps(c), json.dumps(m))
        if r.get("same") is not True:
            return "the key pair imported with key_pair_deserialize is not the exported pair (a token it signs does not verify under the original public key)"
        return None
    if name == "pk_serialize":
        if m is None or m.get("bytes") is None:
            return None if c["n"] == 0 else "public_key_serialize writes for a null handle"
        if c["bytes"] != m["bytes"] or c["n"] != len(m["bytes"]) // 2 or not c["intact"]:
            return "public_key_serialize: %s vs %s" % (json.dumps(c), json.dumps(m))
        return None
    if name == "tok_sizes":
        if m is None or m.get("size") is None:
            return None if c == {"size": 0, "sealed": 0} else "sizes for a null token: %s" % json.dumps(c)
        if c != m:
            return "sizes differ: C %s, Rust %s" % (json.dumps(c), json.dumps(m))
        return None
    if name in ("tok_serialize", "tok_serialize_sealed"):
        if not c["intact"]:
            return "bytes written outside the announced buffer"
        if c["written"] != c["announced"]:
            return "announces %d bytes and writes %d" % (c["announced"], c["written"])
        if m is not None and m.get("bytes") is not None and c["bytes"] != m["bytes"]:
            return "serialized bytes differ from the Rust serialization"
        return None
    if name == "tok_info":
        if m is None:
            return None if c["count"] == 0 and c["print"] is None else "information for a null token"
        if c != m:
            return "token information differs: %s vs %s" % (json.dumps(c)[:300], json.dumps(m)[:300])
        return None
    if name == "az_authorize":
        if m is None or timeouts:
            return None
        if c["ok"] != m["ok"]:
            return "authorization outcome differs: C %s, Rust %s (%s)" % (c["ok"], m["ok"], rerr)
        if c["ok"] is False:
            if c["checks"] != m["checks"]:
                return "failed-check details differ: %s vs %s" % (json.dumps(c["checks"])[:300], json.dumps(m["checks"])[:300])
            if err is None or (rerr is not None and err.get("message") != rerr):
                return "error message differs: %r vs %r" % (err and err.get("message"), rerr)
        if c["print"] != m["print"]:
            return "authorizer_print differs from print_world"
        return None
    return None


def cmp_capi(case, impl, model):
    if "driver_error" in model:
        return "driver error: %s" % model["driver_error"]
    ops = case["ops"]
    got = impl.get("ops", [])
    aborted_at = None
    if "abort" in impl:
        # the child died: the operation it was on is in the progress note
        try:
            aborted_at = int(impl.get("at", "").split()[3])
        except Exception:
            return "the process died: %s (%s)" % (impl["abort"], impl.get("at"))
    for i, (op, pred) in enumerate(zip(ops, model["ops"])):
        if aborted_at is not None and i == aborted_at:
            if pred == "abort":
                return None     # the model predicts it too: judged by the oracle / known finding
            return "operation %d (%s) aborts the process; the handle / buffer model predicts %s" % (i, op["op"], json.dumps(pred))
        if i >= len(got):
            break
        r = got[i]
        if "panic" in r:
            return "operation %d (%s) panics: %s" % (i, op["op"], r["panic"])
        if pred == "abort":
            return "operation %d (%s) returns although the buffer model predicts an abort" % (i, op["op"])
        if pred in ("value", "error"):
            c = r.get("c")
            ok = c is True or (isinstance(c, dict) and c.get("n", 0) > 0)
            if (pred == "value") != ok:
                return "operation %d (%s): C result %s, handle model predicts %s" % (i, op["op"], json.dumps(c)[:100], pred)
        if isinstance(pred, dict) and pred.get("sealed_minus_unsealed") is not None:
            c = r["c"]
            if c["size"] and c["sealed"] - c["size"] != pred["sealed_minus_unsealed"]:
                return "operation %d: sealed size %d, unsealed %d; the wire model predicts a difference of %d" % (i, c["sealed"], c["size"], pred["sealed_minus_unsealed"])
        d = _capi_op_diff(op, r)
        if d:
            return "operation %d (%s): %s" % (i, op["op"], d)
    return None


def oracle_capi(case, impl):
    """C19 on the implementation alone: no call aborts the process"""
    if "abort" in impl:
        return "the process died during %s: %s" % (impl.get("at"), impl["abort"])
    for i, r in enumerate(impl.get("ops", [])):
        if "panic" in r:
            return "operation %d panics: %s" % (i, r["panic"])
    return None


def match_capi_key_buffer(k, d):
    """public_key_serialize copies a 33-byte secp256r1 key into the documented 32-byte buffer"""
    if d["stream"] != "capi" or "died" not in d["why"]:
        return False
    return "pk_serialize" in d["impl"].get("at", "")


def cmp_termparse(case, impl, model):
    """the parser model against fact_inner: same result (sets and maps compared as such), same rest, same error class;
    and the date table obeys what the theorem assumes of the RFC 3339 parser"""
    if "driver_error" in model:
        return "driver error: %s" % model["driver_error"]
    if "panic" in impl:
        return "fact_inner panicked: %s" % impl["panic"][:200]
    for tok, _ in case.get("dates", []):
        if not (len(tok) > 4 and tok[0].isdigit() and tok[0].isascii() and tok[4] == "-"):
            return "the RFC 3339 parser accepted a token outside the assumed shape: %r" % tok
    def ct(t):
        # BTreeSet: duplicates collapse; BTreeMap: a later entry replaces an earlier one with the same key
        if isinstance(t, dict):
            if "set" in t:
                u = {json.dumps(x, sort_keys=True): x for x in (ct(x) for x in t["set"])}
                return {"set": [u[k] for k in sorted(u)]}
            if "arr" in t:
                return {"arr": [ct(x) for x in t["arr"]]}
            if "map" in t:
                u = {}
                for k, v in t["map"]:
                    u[json.dumps(k, sort_keys=True)] = [k, ct(v)]
                return {"map": [u[k] for k in sorted(u)]}
        return t
    def canon(o):
        o = dict(o)
        if "terms" in o:
            o["terms"] = [ct(t) for t in o["terms"]]
        return o
    a, b = canon(impl), canon(model)
    if a != b:
        return "fact_inner and the parser model differ on %r: %s vs %s" % (case["text"][:200], json.dumps(impl)[:300], json.dumps(model)[:300])
    return None


def cmp_exprparse(case, impl, model):
    """the expression parser model against biscuit_parser::parser::expr: same tree (sets and maps compared as such),
    same rest, same error class"""
    if "driver_error" in model:
        return "driver error: %s" % model["driver_error"]
    if "panic" in impl:
        return "expr panicked: %s" % impl["panic"][:200]
    for tok, _ in case.get("dates", []):
        if not (len(tok) > 4 and tok[0].isdigit() and tok[0].isascii() and tok[4] == "-"):
            return "the RFC 3339 parser accepted a token outside the assumed shape: %r" % tok
    def ct(t):
        if isinstance(t, dict):
            if "set" in t and isinstance(t["set"], list):
                u = {json.dumps(x, sort_keys=True): x for x in (ct(x) for x in t["set"])}
                return {"set": [u[k] for k in sorted(u)]}
            if "map" in t and isinstance(t["map"], list):
                u = {}
                for k, v in t["map"]:
                    u[json.dumps(k, sort_keys=True)] = [k, ct(v)]
                return {"map": [u[k] for k in sorted(u)]}
            return {k: ct(v) for k, v in t.items()}
        if isinstance(t, list):
            return [ct(x) for x in t]
        return t
    if ct(impl) != ct(model):
        return "expr and the parser model differ on %r: %s vs %s" % (case["text"][:200], json.dumps(impl)[:300], json.dumps(model)[:300])
    return None


def cmp_itemparse(case, impl, model):
    """the rule / check / policy parser model against the parser entry points"""
    v = cmp_exprparse(case, impl, model)
    return v.replace("expr and the parser model differ", "%s and the parser model differ" % case.get("kind")) if v else None


def cmp_blockparse(case, impl, model):
    """the block / source parser model against parse_block_source / parse_source"""
    v = cmp_exprparse(case, impl, model)
    return v.replace("expr and the parser model differ", "parse_%s and the parser model differ" % ("block_source" if case.get("kind") == "block" else "source")) if v else None


def cmp_convert(case, impl, model):
    """the conversion model against proto_block_to_token_block / token_block_to_proto_block: same error class, or the
    same message written back for the block that was read (sets and maps compared as such)"""
    if "driver_error" in model:
        return "driver error: %s" % model["driver_error"]
    if "panic" in impl:
        return "proto_block_to_token_block panicked: %s" % impl["panic"][:200]
    def ct(t):
        if isinstance(t, dict):
            if "set" in t and isinstance(t["set"], list):
                u = {json.dumps(x, sort_keys=True): x for x in (ct(x) for x in t["set"])}
                return {"set": [u[k] for k in sorted(u)]}
            if "map" in t and isinstance(t["map"], list):
                u = {}
                for k, v in t["map"]:
                    u[json.dumps(k, sort_keys=True)] = [k, ct(v)]
                return {"map": [u[k] for k in sorted(u)]}
            return {k: ct(v) for k, v in t.items()}
        if isinstance(t, list):
            return [ct(x) for x in t]
        return t
    if ct(impl) != ct(model):
        what = "error class" if ("err" in impl or "err" in model) else "block read back"
        return "proto_block_to_token_block and the conversion model differ (%s): %s vs %s" % (what, json.dumps(impl)[:300], json.dumps(model)[:300])
    return None


COMPARATORS = {"convert": cmp_convert, "origins": cmp_default, "blockparse": cmp_blockparse, "itemparse": cmp_itemparse, "exprparse": cmp_exprparse, "termparse": cmp_termparse, "capi": cmp_capi, "macros": cmp_macros, "untrusted": cmp_untrusted, "keys": cmp_keys, "params": cmp_params, "print": cmp_print, "snapshot": cmp_snapshot, "symbols": cmp_symbols, "versions": cmp_versions, "chain": cmp_chain, "limits": cmp_limits, "expr": cmp_default, "engine": cmp_engine, "authz": cmp_authz, "atten": cmp_atten, "determ": cmp_determ}


def nontrivial(stream, case, impl):
    if stream == "expr":
        return impl.get("err") != "InvalidStack"
    if stream == "authz":
        return impl.get("r") in ("ok", "nomatch", "unauth")
    if stream == "snapshot":
        return "restored" in impl and len(case["blocks"]) >= 2
    if stream == "symbols":
        return case["kind"] == "redeclare" or len(impl.get("steps", [])) >= 3
    if stream == "versions":
        return case["feature"] != "plain fact"
    if stream == "chain":
        return case.get("op") in ("sealops", "tpv", "tpu") or len(case["subject"]["blocks"]) >= 1 or case.get("mutation") != "none"
    if stream == "limits":
        return any(o.get("r", "").startswith("limit") for o in impl.get("calls", [])) or len(impl.get("calls", [])) > 1
    if stream == "determ":
        return impl.get("outcomes", [{}])[0].get("r") in ("ok", "nomatch", "unauth")
    if stream == "atten":
        return impl["ext"].get("r") in ("ok", "nomatch", "unauth") and impl["base"].get("r") in ("ok", "nomatch", "unauth")
    if stream == "engine":
        return impl.get("r") == "ok" and impl.get("iterations", 0) >= 1
    if stream == "macros":
        return len(case["binds"]) >= 1 or case["merge"]
    if stream == "untrusted":
        return case["kind"] != "entry" or impl.get("r") == "ok"
    if stream == "keys":
        return case["kind"] not in ("decode",) or case.get("mutation") != "none"
    if stream == "params":
        return len(case["binds"]) >= 1 and '"param"' in json.dumps(case["item"])
    if stream == "termparse":
        return any(c in case["text"] for c in "[{")
    if stream == "exprparse":
        return any(c in case["text"] for c in "(.|&<>=+-*/!")
    if stream == "convert":
        return "err" in impl or len(case["block"]["rules"]) + len(case["block"]["checks"]) >= 1
    if stream == "blockparse":
        return case["text"].count(";") >= 2 or "//" in case["text"] or "/*" in case["text"]
    if stream == "itemparse":
        return "," in case["text"] or " or " in case["text"].lower() or "trusting" in case["text"]
    if stream == "print":
        t = json.dumps(case["item"])
        return '\\"' in t or '\\\\' in t or '"bin"' in t or '"map"' in t or '"scopes": [{' in t
    return True


# ---------------------------------------------------------------- oracles (implementation only)
def oracle_expr(case, impl):
    if "panic" in impl:
        return "Expression::evaluate panicked: %s" % impl["panic"]
    return None


def _scopes_of(part):
    out = list(part.get("sc", []))
    for r in part.get("rules", []):
        out += r.get("sc", [])
    for c in part.get("checks", []):
        for q in c["q"]:
            out += q.get("sc", [])
    for p in part.get("policies", []):
        for q in p["q"]:
            out += q.get("sc", [])
    return out


def oracle_atten(case, impl):
    """C03 on the implementation alone: if nobody trusts the new block's key, acceptance of the
    extended token implies acceptance of the original by the same policy, and failed checks only grow"""
    k = case["extension"].get("ext")
    if k is not None:
        named = [s for part in case["blocks"] + [case["az"]] for s in _scopes_of(part)
                 if isinstance(s, dict) and s.get("key") == k]
        if named:
            return None
    b, e = impl["base"], impl["ext"]
    if "panic" in b or "panic" in e:
        return "panic"
    decided = ("ok", "nomatch", "unauth")
    if b.get("r") not in decided or e.get("r") not in decided:
        return None
    if e["r"] == "ok" and not (b["r"] == "ok" and b["p"] == e["p"]):
        return "extended token accepted (policy %s) but original token is %s" % (e.get("p"), json.dumps({k: b.get(k) for k in ("r", "p", "failed")}))
    fb = [json.dumps(x) for x in b.get("failed", [])]
    fe = [json.dumps(x) for x in e.get("failed", [])]
    gone = [x for x in fb if x not in fe]
    if gone:
        return "checks %s failed on the original token but pass on the extended one" % gone
    if (b.get("r"), b.get("p"), b.get("pk")) != (e.get("r"), e.get("p"), e.get("pk")) and not (b["r"] == "ok" and e["r"] == "unauth" and e.get("pk") == "allow" and e.get("p") == b.get("p")):
        return "matched policy changed: original %s/%s/%s extended %s/%s/%s" % (b.get("r"), b.get("pk"), b.get("p"), e.get("r"), e.get("pk"), e.get("p"))
    return None


def oracle_snapshot(case, impl):
    """C13 on the implementation alone"""
    if "panic" in impl:
        return "panic: %s" % impl["panic"]
    for k in ("builder_snapshot_error", "builder_restore_error", "snapshot_error", "restore_error", "policies_restore_error"):
        if k in impl:
            return "%s: %s" % (k.replace("_", " "), impl[k])
    if impl.get("builder_same_code") is False:
        return "builder restored from its snapshot prints different code: %s" % json.dumps(impl.get("builder_code"))[:300]
    if impl.get("builder_same_outcome") is False:
        return "builder restored from its snapshot authorizes differently"
    if impl.get("policies_same") is False:
        return "policies restored from their serialized form differ: %s" % json.dumps(impl.get("policies_code"))[:300]
    if "restored" in impl:
        if impl.get("same_display") is False:
            return "restored authorizer differs (facts per origin, rules, checks, policies): %s" % json.dumps(impl.get("display_diff"))[:400]
        if impl.get("same_limits") is False:
            return "restored authorizer has different limits"
        if impl.get("same_counters") is False:
            return "restored authorizer has different iteration / fact counters"
        a, b = impl["original"], impl["restored"]
        ka = {k: a.get(k) for k in ("r", "p", "pk", "failed")}
        kb = {k: b.get(k) for k in ("r", "p", "pk", "failed")}
        if ka != kb and not (ka["r"] == kb["r"] == "exec"):
            return "restored authorizer decides differently: %s vs %s" % (json.dumps(ka), json.dumps(kb))
        for i, (x, y) in enumerate(zip(a.get("queries", []), b.get("queries", []))):
            if _canon_query(x) != _canon_query(y):
                return "restored authorizer answers query %d differently" % i
    return None


def oracle_symbols(case, impl):
    """C12 on the implementation alone: in memory == after a round trip, at every step"""
    if "panic" in impl:
        return "panic: %s" % impl["panic"]
    for n, a in enumerate(impl.get("steps", [])):
        op = case["ops"][n]["op"] if n < len(case.get("ops", [])) else "?"
        if "op_error" in a or "reload_error" in a:
            continue
        if a.get("sources_mem") != a.get("sources_reloaded"):
            return "step %d (%s): print_block_source differs between the in-memory token and the reloaded one: %s vs %s" % (
                n, op, json.dumps(a.get("sources_mem"))[:300], json.dumps(a.get("sources_reloaded"))[:300])
        if "sources_reloaded_unverified" in a and a["sources_reloaded_unverified"] != a["sources_reloaded"]:
            return "step %d (%s): print_block_source differs between Biscuit and UnverifiedBiscuit on the same bytes: %s vs %s" % (
                n, op, json.dumps(a["sources_reloaded"])[:300], json.dumps(a["sources_reloaded_unverified"])[:300])
        if "verify_error" in a:
            return "step %d (%s): the in-memory unverified token does not verify: %s" % (n, op, a["verify_error"])
        am, ar = a.get("authz_mem"), a.get("authz_reloaded")
        if am is not None and ar is not None:
            ka = {k: am.get(k) for k in ("r", "p", "pk", "failed", "kind")}
            kb = {k: ar.get(k) for k in ("r", "p", "pk", "failed", "kind")}
            if ka != kb:
                return "step %d (%s): authorization differs between the in-memory token and the reloaded one: %s vs %s" % (n, op, json.dumps(ka), json.dumps(kb))
    return None


def oracle_versions(case, impl):
    """C16 on the implementation alone, with the specification's answer computed by the model"""
    return None


def oracle_limits(case, impl):
    """C10 on the implementation alone: success only within budget, counters never above the budget on success,
    and (fake clock) no success once the cumulative time spent reaches max_time"""
    if "panic" in impl:
        return "panic: %s" % impl["panic"]
    lim = case["limits"]
    for n, o in enumerate(impl.get("calls", [])):
        ok = o.get("r") in ("ok", "nomatch", "unauth", "answer")
        if ok and "iterations" in o:
            if o["iterations"] > lim["i"]:
                return "call %d succeeded with iterations()=%d above max_iterations=%d" % (n, o["iterations"], lim["i"])
            if o["fact_count"] > lim["f"]:
                return "call %d succeeded with fact_count()=%d above max_facts=%d" % (n, o["fact_count"], lim["f"])
        if case.get("time") and "ticked_before" in o:
            t = lim["t"]
            if ok and o["ticked_before"] >= t:
                return "call %d succeeded although %d ms of the %d ms budget were already spent by earlier calls" % (n, o["ticked_before"], t)
            if o.get("r") in ("ok", "nomatch", "unauth") and o["ticked_after"] >= t:
                return "authorize (call %d) succeeded after %d ms of evaluation for a %d ms budget" % (n, o["ticked_after"], t)
    return None


ORACLES = {("C02", "symbols"): oracle_symbols, ("C19", "capi"): oracle_capi, ("C18", "macros"): oracle_macros, ("C09", "untrusted"): oracle_untrusted, ("C17", "keys"): oracle_keys, ("C20", "params"): oracle_params, ("C14", "print"): oracle_print, ("C13", "snapshot"): oracle_snapshot, ("C12", "symbols"): oracle_symbols, ("C10", "limits"): oracle_limits, ("C06", "expr"): oracle_expr, ("C03", "atten"): oracle_atten}


def signature(d):
    """coarse class of a disagreement, so that one VIOLATION line is printed per distinct violation"""
    def cls(o):
        if not isinstance(o, dict):
            return str(o)[:20]
        if "err" in o:
            return "err:" + str(o["err"])
        if "panic" in o:
            return "panic"
        if d["stream"] in ("termparse", "exprparse", "itemparse", "blockparse"):
            return "r:" + str(o.get("r"))
        return ",".join(sorted(o.keys()))
    return (d["stream"], cls(d["impl"]), cls(d["model"]), d.get("why", "")[:40])


def matches_known(k, d):
    if k.get("stream") != d["stream"]:
        return False
    m = k.get("match")
    if m is None:
        return json.dumps(k.get("replay"), sort_keys=True) == json.dumps(d["case"], sort_keys=True)
    return MATCHERS[m](k, d)


def match_amb(k, d):
    """the known order-dependence: an expression error and a successful (or counter-example) binding coexist
    for one query; which one decides depends on the iteration order of the hash-based fact store"""
    return bool(d["model"].get("amb")) and d["why"].startswith("order-dependent outcome")


def match_time_after_failed_run(k, d):
    """cumulative-time oracle failure where an earlier call of the same history ended in a run limit"""
    if "already spent by earlier calls" not in d["why"] and "ms of evaluation" not in d["why"]:
        return False
    calls = d["impl"].get("calls", [])
    for n, o in enumerate(calls):
        ok = o.get("r") in ("ok", "nomatch", "unauth", "answer")
        if ok and o.get("ticked_after", 0) >= d["case"]["limits"]["t"]:
            return any(str(p.get("r", "")).startswith("limit") for p in calls[:n])
    return False


def match_ecdsa_s(k, d):
    """secp256r1 signatures are accepted in both forms (r, s) and (r, n - s)"""
    return "ecdsa (r, n-s)" in str(d["case"].get("mutation", "")) and d["impl"].get("accept") is True and d["model"].get("accept") is False


def match_policies_key_scope(k, d):
    """saved policies naming a public key cannot be restored: the message has no key table"""
    return d["why"].startswith("policies restore error") and "UnknownExternalKey" in d["why"] and '"key"' in json.dumps(d["case"]["az"])


MATCHERS = {"capi-key-buffer": match_capi_key_buffer, "source-nesting": match_source_nesting, "map-key-parameter-type": match_map_key_parameter_type, "singleton-set-parameter": match_singleton_set_parameter, "policies-key-scope": match_policies_key_scope, "ecdsa-s": match_ecdsa_s, "amb": match_amb, "time-after-failed-run": match_time_after_failed_run}


# ---------------------------------------------------------------- shrinking
SHRINKABLE = {"expr", "print", "params", "capi"}


def list_paths(case, stream):
    """JSON paths of the lists of a case that may be shortened (longest lists first)"""
    if stream == "expr":
        return [["vals"]]
    if stream not in SHRINKABLE:
        return []
    out = []

    def walk(v, path):
        if isinstance(v, list):
            if len(v) >= 1 and path and path[-1] not in ("clo",):
                out.append(list(path))
            for i, x in enumerate(v):
                walk(x, path + [i])
        elif isinstance(v, dict):
            for k, x in v.items():
                walk(x, path + [k])

    root = "ops" if stream == "capi" else ("binds" if stream == "params" else "item")
    walk(case.get(root), [root])
    if stream == "params":
        walk(case.get("item"), ["item"])
    out.sort(key=lambda p: len(p))
    return out


def _vars(j, out):
    if isinstance(j, dict):
        if set(j.keys()) == {"var"}:
            out.add(j["var"])
        for k, v in j.items():
            if k != "clo":
                _vars(v, out)
    elif isinstance(j, list):
        for v in j:
            _vars(v, out)
    return out


def _query_ok(q, is_rule):
    if any(not p["terms"] for p in q["body"]):
        return False
    if not q["body"] and not q["exprs"]:
        return False
    if any(not e for e in q["exprs"]):
        return False
    if is_rule:
        if not q["head"]["terms"] or not q["body"]:
            return False
        bound = _vars(q["body"], set())
        return _vars(q["head"], set()) <= bound and _vars(q["exprs"], set()) <= bound
    return True


def print_item_ok(case):
    """a shortened `print` / `params` item must still be an item of the grammar"""
    k, it = case.get("kind"), case.get("item")
    try:
        if k == "fact":
            return bool(it["terms"])
        if k == "rule":
            return _query_ok(it, True)
        if k in ("check", "policy"):
            return bool(it["queries"]) and all(_query_ok(q, False) for q in it["queries"])
        facts_ok = all(f["terms"] for f in it.get("facts", []))
        rules_ok = all(_query_ok(r, True) for r in it.get("rules", []))
        checks_ok = all(c["queries"] and all(_query_ok(q, False) for q in c["queries"]) for c in it.get("checks", []))
        pols_ok = all(c["queries"] and all(_query_ok(q, False) for q in c["queries"]) for c in it.get("policies", []))
        if k == "authorizer" and not it.get("policies"):
            return False
        return facts_ok and rules_ok and checks_ok and pols_ok
    except (KeyError, TypeError):
        return False


def still_fails(pid, stream, cand, im, mo, want_sig):
    if stream in ("print", "params") and not print_item_ok(cand):
        return None
    v = COMPARATORS[stream](cand, im, mo)
    why = v if v not in (None, "skip") else None
    if why is None:
        orc = ORACLES.get((pid, stream))
        why = orc(cand, im) if orc else None
    if not why:
        return None
    d = {"stream": stream, "case": cand, "impl": im, "model": mo, "why": why}
    return d if (signature(d), fingerprint(why)) == want_sig else None


def fingerprint(why):
    """the reason of a failure without the data it quotes: a shortened case must fail for the same reason, not
    merely in the same class (a shortened item that is no longer well formed fails differently)"""
    import re
    if why.startswith("fact_inner and the parser model differ"):
        return "fact_inner and the parser model differ"
    if why.startswith("expr and the parser model differ"):
        return "expr and the parser model differ"
    if " and the parser model differ on " in why:
        return why.split(" and the parser model differ on ")[0] + " and the parser model differ"
    w = re.sub(r'input: \\?"(?:[^"\\]|\\.)*\\?"', 'input', why)
    w = re.sub(r"\(text .*$", "", w, flags=re.S)
    w = re.sub(r"[0-9a-f]{8,}|\d+", "_", w)
    return w[:200]


def shrink(d, rerun, budget=60, pid=None):
    """delta debugging on the lists of the case: an element is dropped when the shortened case still fails in the
    same way (same signature: stream, outcome classes, beginning of the reason) on a fresh run of both sides"""
    best = d
    want = (signature(d), fingerprint(d["why"]))
    if d["stream"] in ("termparse", "exprparse", "itemparse", "blockparse"):
        # delta debugging on the text: chunks of halving size are cut out while the two sides still differ
        text = best["case"]["text"]
        chunk = max(1, len(text) // 2)
        while chunk >= 1 and budget > 0:
            i, cut = 0, False
            while i < len(text) and budget > 0:
                cand = {"op": d["stream"], "gen": "shrunk", "text": text[:i] + text[i + chunk:], "dates": []}
                if "kind" in best["case"]:
                    cand["kind"] = best["case"]["kind"]
                budget -= 1
                im, mo = rerun(cand)
                nd = still_fails(pid, d["stream"], cand, im, mo, want) if im is not None else None
                if nd:
                    best, text, cut = nd, cand["text"], True
                else:
                    i += chunk
            if not cut:
                chunk //= 2
        return best
    progress = True
    while progress and budget > 0:
        progress = False
        for path in list_paths(best["case"], d["stream"]):
            cur = best["case"]
            lst = cur
            try:
                for p in path:
                    lst = lst[p]
            except (KeyError, IndexError, TypeError):
                continue
            for i in reversed(range(len(lst))):
                if budget <= 0:
                    break
                cand = copy.deepcopy(cur)
                l2 = cand
                for p in path:
                    l2 = l2[p]
                del l2[i]
                budget -= 1
                im, mo = rerun(cand)
                if im is None:
                    continue
                nd = still_fails(pid, d["stream"], cand, im, mo, want)
                if nd:
                    best = nd
                    progress = True
                    break
            if progress or budget <= 0:
                break
    return best
